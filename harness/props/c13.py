"""C13: cohort-splitting models score every patient exactly once, by the right sub-model.

Tie: after each of 1-3 load_patient_data calls on a Midline model: the rows held by every sub-model
(patient ids) and the cohort likelihood vs Cohort.ml_load + ml_hmm_likelihood_factors; HPVUnilateral: rows of
hpv / nohpv and likelihood = sum of the parts.  Relation on the implementation: likelihood after a sequence of
loads = likelihood of a fresh model that only loaded the last table.
"""
from __future__ import annotations

import copy
import json
import math
import random

import numpy as np
import pandas as pd

from .. import gen, impl
from ..core import Ctx, fracs, run_standard, unres, s, boolean, lst
from ..coqterms import coq_midline
from ..numcases import IMPORTS_ML, tmap
from .c01 import _lik_cmp
from .c04 import build, coq_split, gen_flags, gen_mpatients

IMPORTS = IMPORTS_ML


def gen_case(rng, tier):
    base = rng.choice([2, 2, 3])
    g = gen.gen_graph(rng, max_lnls=2, base=base)
    lnls = gen.lnls_of(g)
    mt = rng.randint(0, 2)
    c = {"graph": g, "mods": gen.gen_modalities(rng, 1, 1), "max_time": mt, "dists": gen.gen_dists(rng, mt),
         "flags": gen_flags(rng), "seed_params": rng.randrange(1 << 30), "boundary": None}
    mods = [m[0] for m in c["mods"]]
    c["table_mods"] = mods
    loads = []
    for _ in range(rng.randint(1, 3)):
        kind = rng.choice(["mixed", "mixed", "empty", "all-unknown", "no-unknown", "no-ext"])
        pats = gen_mpatients(rng, mods, lnls, 0 if kind == "empty" else 1, 0 if kind == "empty" else 5)
        for p in pats:
            if kind == "all-unknown":
                p["ext"], p["central"] = None, None
            elif kind == "no-unknown" and p["ext"] is None:
                p["ext"] = rng.choice([True, False])
            elif kind == "no-ext" and p["ext"] is True:
                p["ext"], p["central"] = False, False
            if p.get("central") is True:
                p["ext"] = True
        loads.append(pats)
    pid = 0
    for pats in loads:
        for p in pats:
            p["id"] = pid
            pid += 1
    c["loads"] = loads
    c["patients"] = loads[-1]
    return c


def table(case, pats):
    df = impl.table_from_patients(pats, case["table_mods"], gen.lnls_of(case["graph"]), ("ipsi", "contra"), True)
    df[("patient", "#", "id")] = [p["id"] for p in pats]
    return df


def ids(sub):
    try:
        return [int(v) for v in sub.ipsi.patient_data[("patient", "#", "id")].tolist()]
    except AttributeError:
        return []          # "no data loaded" and "empty cohort" are the same observable cohort


_models = {}


def impl_fn(case):
    m = build(case)
    _models[json.dumps(case, sort_keys=True)] = m
    for pats in case["loads"]:
        m.load_patient_data(table(case, pats))
    out = {"ext": ids(m.ext), "noext": ids(m.noext),
           "central": ids(m.central) if m.use_central else None,
           "unknown": ids(m.unknown) if m.marginalize_unknown else None}
    out["log"] = float(m.likelihood())
    fresh = build(case)
    fresh.load_patient_data(table(case, case["loads"][-1]))
    out["fresh_log"] = float(fresh.likelihood())
    parts = m.ext.likelihood  # noqa: F841  (sub-likelihoods are compared through the model's factor list)
    return out


def coq_expr(case):
    m = _models.get(json.dumps(case, sort_keys=True)) or build(case)
    ml = coq_midline(case, m)
    data = coq_split(case, m, case["loads"][-1])
    return (f"let ml := {ml} in let data := {data} in "
            f"(match ml_hmm_likelihood_factors ml data None with inr v => inr (qouts v) | inl e => inl e end, "
            f"(length (d_ext data), length (d_noext data), option_map (@length _) (d_central data), option_map (@length _) (d_unknown data)))")


def expected_ids(case, m_flags):
    pats = case["loads"][-1]
    uc, mu = m_flags["use_central"], m_flags["marginalize_unknown"]
    return {
        "noext": [p["id"] for p in pats if p["ext"] is False],
        "ext": [p["id"] for p in pats if p["ext"] is True and not (uc and p.get("central") is True)],
        "central": [p["id"] for p in pats if p.get("central") is True] if uc else None,
        "unknown": [p["id"] for p in pats if p["ext"] is None] if mu else None,
    }


def compare(case, obs, val):
    fac, counts = val
    if obs[0] == "err":
        return {"observable": "load_patient_data/likelihood", "actual": f"raised {obs[1]}: {obs[2]}", "expected": "values"}
    o = obs[1]
    exp = expected_ids(case, case["flags"])
    ne, nn, nc, nu = counts
    def unopt(v):
        return None if v is None else (v[1] if isinstance(v, tuple) else v)
    model_counts = {"ext": ne, "noext": nn, "central": unopt(nc), "unknown": unopt(nu)}
    for k in ("ext", "noext", "central", "unknown"):
        if (exp[k] is None) != (model_counts[k] is None) or (exp[k] is not None and len(exp[k]) != model_counts[k]):
            from ..core import HarnessError
            raise HarnessError(f"harness/model disagree on the split {k}: {exp[k]} vs {model_counts[k]}")
        if o[k] != exp[k]:
            return {"observable": f"patients held by sub-model {k!r} after the last load", "actual": o[k], "expected": exp[k],
                    "statement": "each loaded patient is assigned to exactly one sub-cohort; a new table replaces every sub-cohort (C13_reload_replaces_all)"}
    mm = _lik_cmp("likelihood(log=True)", ("ok", o["log"]), fac, True)
    if mm:
        mm["statement"] = "cohort likelihood = sum of the sub-cohort log-likelihoods over exactly these patients"
        return mm
    a, b = o["log"], o["fresh_log"]
    if not (a == b or abs(a - b) <= 1e-9 * max(1.0, abs(b))):
        return {"observable": "likelihood after reloads vs fresh model with the last table", "actual": a, "expected": b}
    return None


def candidates(case):
    out = []
    if len(case["loads"]) > 1:
        for k in range(len(case["loads"]) - 1):
            c = copy.deepcopy(case)
            del c["loads"][k]
            c["patients"] = c["loads"][-1]
            out.append(c)
    for li, pats in enumerate(case["loads"]):
        if len(pats) > 0:
            for k in range(len(pats)):
                c = copy.deepcopy(case)
                del c["loads"][li][k]
                c["patients"] = c["loads"][-1]
                out.append(c)
    return out


def hpv_checks(ctx: Ctx, n: int):
    """HPVUnilateral: split by HPV status; likelihood vs the Coq model (Hpv.hpv_cohort_factors) and vs the sum of the parts."""
    from lymph import models
    from ..coqterms import coq_patient, coq_uni
    from ..core import run_coq_cases, lst as _lst, s as _s
    rng = ctx.rng
    pending = []
    for _ in range(n):
        g = {"base": rng.choice([2, 2, 3]), "entries": [["tumor", "T", ["II", "III"]], ["lnl", "II", ["III"]], ["lnl", "III", []]]}
        mt = rng.randint(0, 2)
        dists = gen.gen_dists(rng, mt)
        mods = gen.gen_modalities(rng, 1, 1)
        ctor = models.HPVUnilateral.trinary if g["base"] == 3 else models.HPVUnilateral.binary
        m = ctor(gen.graph_dict(g), uni_kwargs={"max_time": mt})
        pp, pn = gen.gen_edge_params(rng, g), gen.gen_edge_params(rng, g)
        m.hpv.set_params(**pp)
        m.nohpv.set_params(**pn)
        for name, sp, sn, kind in mods:
            m.set_modality(name, sp, sn, kind)
        for t, d in dists.items():
            impl.apply_dist(m, t, d)
        last = None
        for _k in range(rng.randint(1, 3)):
            pats = [gen.gen_patient(rng, [x[0] for x in mods], ["II", "III"]) for _ in range(rng.randint(0, 5))]
            status = [rng.choice([True, False, None]) for _ in pats]
            df = impl.table_from_patients(pats, [x[0] for x in mods], ["II", "III"])
            df[("patient", "#", "hpv_status")] = pd.Series(status, dtype=object, index=df.index)
            df[("patient", "#", "id")] = list(range(len(pats)))
            m.load_patient_data(df)
            last = (pats, status)
        pats, status = last
        case = {"class": "HPVUnilateral", "graph": g, "status": status, "patients": pats, "mods": mods, "dists": dists,
                "max_time": mt, "hpv_params": pp, "nohpv_params": pn}
        ctx.count(case, len(set(map(repr, status))) >= 2, "hpv")
        pos = [i for i, sv in enumerate(status) if sv is True]
        neg = [i for i, sv in enumerate(status) if sv is False]
        got_pos = [int(v) for v in m.hpv.patient_data[("patient", "#", "id")].tolist()]
        got_neg = [int(v) for v in m.nohpv.patient_data[("patient", "#", "id")].tolist()]
        if got_pos != pos or got_neg != neg:
            ctx.violation("HPV split", {"case": case, "mismatch": {"observable": "hpv/nohpv patient ids", "actual": [got_pos, got_neg],
                                                                  "expected": [pos, neg]}}, {"class": "HPVUnilateral", "call": "load_patient_data"})
            return
        tot, parts = float(m.likelihood()), float(m.hpv.likelihood()) + float(m.nohpv.likelihood())
        if not (tot == parts or abs(tot - parts) <= 1e-9 * max(1.0, abs(parts))):
            ctx.violation("HPV likelihood is not the sum of the parts",
                          {"case": case, "mismatch": {"observable": "HPVUnilateral.likelihood()", "actual": tot, "expected": parts}},
                          {"class": "HPVUnilateral", "call": "likelihood"})
            return
        # every mode x T-stage restriction x log: the composite forwards both to BOTH sub-models
        stages = sorted({str(t) for t in dists})
        for mode in ("HMM", "BN") if g["base"] == 2 else ("HMM",):      # the Bayesian network is binary-only
            for ts in [None] + stages:
                for lg in (True, False):
                    try:
                        tot2 = float(m.likelihood(t_stage=ts, mode=mode, log=lg))
                        a, b = float(m.hpv.likelihood(t_stage=ts, mode=mode, log=lg)), float(m.nohpv.likelihood(t_stage=ts, mode=mode, log=lg))
                    except Exception as e:  # noqa: BLE001
                        ctx.violation("HPV likelihood raised", {"case": case, "mismatch": {"observable": f"likelihood(t_stage={ts!r}, mode={mode!r}, log={lg})",
                                      "actual": f"raised {impl.err_enum(e)}", "expected": "a value"}}, {"class": "HPVUnilateral", "call": "likelihood"})
                        return
                    parts2 = a + b if lg else a * b
                    if not (tot2 == parts2 or abs(tot2 - parts2) <= 1e-9 * max(1.0 if lg else 0.0, abs(parts2)) + 1e-300):
                        ctx.violation("HPV likelihood is not the sum of the parts",
                                      {"case": case, "mismatch": {"observable": f"HPVUnilateral.likelihood(t_stage={ts!r}, mode={mode!r}, log={lg})",
                                                                  "actual": tot2, "expected": parts2}},
                                      {"class": "HPVUnilateral", "call": "likelihood"})
                        return
        base = {"graph": g, "mods": mods, "dists": dists, "max_time": mt}
        rows = _lst("{| hp_pat := " + coq_patient(p, "ipsi", tmap) + "; hp_status := "
                    + ("None" if sv is None else f"(Some {'true' if sv else 'false'})") + " |}" for p, sv in zip(pats, status))
        expr = (f"match hpv_cohort_factors {{| h_hpv := {coq_uni({**base, 'params': pp})}; h_nohpv := {coq_uni({**base, 'params': pn})} |}} "
                f"{rows} None with inr v => inr (qouts v) | inl e => inl e end")
        pending.append((case, tot, expr))
        if g["base"] == 2:          # Bayesian-network mode against HpvBn.hpv_bn_cohort_factors (whole cohort and one T-stage)
            for ts in [None] + ([rng.choice(stages)] if stages else []):
                targ = "None" if ts is None else f"(Some {_s(ts)})"
                expr_bn = expr.replace("hpv_cohort_factors", "hpv_bn_cohort_factors").replace(f"{rows} None with", f"{rows} {targ} with")
                pending.append(({**case, "t_stage": ts, "mode": "BN"}, float(m.likelihood(t_stage=ts, mode="BN")), expr_bn))
        if stages:
            ts = rng.choice(stages)
            expr_t = expr.replace(f"{rows} None with", f'{rows} (Some {_s(ts)}) with')
            assert expr_t != expr
            pending.append(({**case, "t_stage": ts}, float(m.likelihood(t_stage=ts)), expr_t))
    if pending:
        vals = run_coq_cases(ctx.work / "hpv", [e for _, _, e in pending], IMPORTS + " LikelihoodProofs Hpv HpvBn", shard=10)
        for (case, tot, _), v in zip(pending, vals):
            mm = _lik_cmp(f"HPVUnilateral.likelihood(t_stage={case.get('t_stage')!r}, mode={case.get('mode', 'HMM')!r})", ("ok", tot), v, True)
            if mm:
                mm["statement"] = "cohort likelihood = HPV+ patients under the hpv model + HPV- patients under the nohpv model (C13_hpv_likelihood_is_sum)"
                ctx.violation("HPV cohort likelihood differs from the model", {"case": case, "mismatch": mm},
                              {"class": "HPVUnilateral", "call": "likelihood"})
                return


def run(ctx: Ctx, a_ok: bool):
    ctx.cone = ["Cohort.ml_load", "Cohort.hpv_load", "Midline.ml_hmm_likelihood_factors"]
    ctx.rule = ("sequences of 1-3 load_patient_data calls on Midline models (all flag combinations) with tables of different "
                "composition (mixed, empty, all-unknown, no-unknown, no-extension; central => extension), each row carrying a "
                "patient id; plus HPVUnilateral with HPV status True/False/missing; non-trivial iff >=2 loads or >=2 different "
                "status values in the last table")
    n = 60 if ctx.tier == "quick" else 500
    cases = [gen_case(ctx.rng, ctx.tier) for _ in range(n)]
    for c in cases:
        st = {repr(p.get("ext")) for p in c["loads"][-1]}
        ctx.count(c, len(c["loads"]) >= 2 or len(st) >= 2, f"loads{len(c['loads'])}-cen{int(c['flags']['use_central'])}-unk{int(c['flags']['marginalize_unknown'])}")
    run_standard(ctx, cases, impl_fn, coq_expr, compare, IMPORTS, candidates,
                 sig_fn=lambda c, mm: {"class": "Midline", "call": "load_patient_data", "observable": str(mm.get("observable"))[:40]},
                 call_fn=lambda c, mm: "build Midline; load_patient_data(table) for each table in loads; " + str(mm.get("observable")),
                 broken="correspondence Cohort.ml_load / cohort likelihood vs /repo", shard=8)
    hpv_checks(ctx, 30 if ctx.tier == "quick" else 300)


def replay(ctx: Ctx, path: str) -> int:
    data = json.loads(open(path).read())
    from ..core import correspondence
    bad = correspondence(ctx, [data["case"]], impl_fn, coq_expr, compare, IMPORTS, tag="replay")
    if bad:
        print("REPRODUCED", json.dumps(bad[0][1], default=str))
        return 1
    print("not reproduced")
    return 0
