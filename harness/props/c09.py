"""C09: history independence -- results depend only on the current configuration.

(a) Coq tie: random histories on Unilateral models (1-2 live instances) over the mutating / querying API are run
    on /repo and on the Coq instance machine `Machine.uni_trace` (the cache-free Spec machine, proved equal to the
    cached machine by C09_history_independent); every output and, after every step, the observable configuration
    (get_params, modalities, distributions, max_time) are compared.
(b) the property itself on the implementation, all classes: histories over 2-3 live instances of mixed classes
    sharing the module-level caches; after every query the same query is run on a FRESHLY constructed model built
    from a shadow configuration the harness maintains itself; every query is run twice (purity).

State dependent calls (state_dist(mode="BN"), transition_prob(assign=True)) are documented as such and are kept out
of the histories.  Hash values / ids are never compared.  After a max_time change the frozen distributions are
re-set in the same step (DESIGN.md section 6).
"""
from __future__ import annotations

import copy
import itertools
import json
import math
import time

import numpy as np
import pandas as pd

from .. import gen, impl
from ..core import (Ctx, HarnessError, VERIF, boolean, correspondence, first_diff, fracs, lst, nat, opt, q, run_standard, s,
                    tup)
from ..coqterms import coq_diagnosis, coq_edge_params, coq_graph, coq_modality, coq_mods, coq_patient, coq_pattern
from ..numcases import tmap

from collections import Counter

STATS = Counter()
IMPORTS = "Base States Linalg Graph Transition Observation Dist Unilateral Machine"
STAGES = ["early", "late", "X"]          # distribution stages used in histories ("X" never occurs in a table)
MODS = ["CT", "MRI", "PET"]
QUERIES = ("data_matrix", "diagnosis_matrix", "likelihood", "likelihood_given", "state_dist", "obs_dist", "risk",
           "transition_matrix", "observation_matrix", "patient_data", "get_params")
FAM_DOMAIN = {0: {"p": (0.0, 1.0, True)}, 1: {"a": (0.0, 100.0, True), "b": (0.0, 100.0, False)}}   # lo, hi, lo inclusive


# ======================================================================================================
# normalisation of a history (pure, no lymph): lengths of frozen distributions follow max_time
# ======================================================================================================
def fit(w, n):
    w = list(w)[:n]
    w = w + [1] * (n - len(w))
    if sum(w) == 0:
        w[0] = 1
    return w


def kw_valid(fam, kw):
    for k, v in kw.items():
        lo, hi, inc = FAM_DOMAIN[fam][k]
        if not ((lo <= v if inc else lo < v) and v <= hi):
            return False
    return True


def apply_dist_kw(dists, kw):
    """Composite.set_distribution_params with keywords '<stage>_<param>': distributions in insertion order; the first one
    whose new keywords are rejected raises (its old keywords are restored) and the later ones are not reached"""
    for t, d in dists.items():
        if "fam" not in d:
            continue
        new = dict(d["kw"])
        for name, v in kw.items():
            tt, _, pk = name.partition("_")
            if tt == t and pk in new:
                new[pk] = v
        if not kw_valid(d["fam"], new):
            return False
        d["kw"] = new
    return True


def normalise(case):
    """Ops with every frozen weight list fitted to the max_time in force; a max_time change carries the re-set
    frozen distributions of that moment (the precondition of DESIGN.md section 6)."""
    st = [{"mt": sp["max_time"], "dists": {}} for sp in case["instances"]]
    out = []
    for op in case["ops"]:
        op = copy.deepcopy(op)
        a = st[op["i"]] if "i" in op else None
        k = op["op"]
        if k == "set_distribution":
            if "frozen" in op["dist"]:
                op["dist"]["frozen"] = fit(op["dist"]["frozen"], a["mt"] + 1)
            a["dists"][op["t"]] = copy.deepcopy(op["dist"])
        elif k == "replace_distributions":
            for t, d in op["dists"].items():
                if "frozen" in d:
                    d["frozen"] = fit(d["frozen"], a["mt"] + 1)
            a["dists"] = copy.deepcopy(op["dists"])
        elif k == "del_distribution":
            a["dists"].pop(op["t"], None)
        elif k == "clear_distributions":
            a["dists"] = {}
        elif k == "set_max_time":
            a["mt"] = op["value"]
            reset = {}
            for t, d in a["dists"].items():
                if "frozen" in d:
                    d["frozen"] = fit(op.get("reset", {}).get(t, d["frozen"]), a["mt"] + 1)
                    reset[t] = list(d["frozen"])
            op["reset"] = reset
        elif k in ("set_params", "likelihood_given"):
            if k == "likelihood_given":      # given_params accepts only names that get_params() reports at that moment
                op["kw"] = {n: v for n, v in op["kw"].items() if n.split("_")[0] not in STAGES
                            or (n.split("_")[0] in a["dists"] and n.split("_")[1] in a["dists"][n.split("_")[0]].get("kw", {}))}
            apply_dist_kw(a["dists"], op["kw"])
        out.append(op)
    return out


# ======================================================================================================
# implementation side
# ======================================================================================================
def construct(spec, max_time=None):
    from lymph import models
    g = gen.graph_dict(spec["graph"])
    uk = {"max_time": spec["max_time"] if max_time is None else max_time,
          "allowed_states": [0, 1, 2] if spec["graph"]["base"] == 3 else [0, 1]}
    cls = spec["cls"]
    if cls == "Unilateral":
        return models.Unilateral(g, **uk)
    if cls == "Bilateral":
        return models.Bilateral(g, is_symmetric=dict(spec.get("sym", {})), uni_kwargs=uk)
    if cls == "Midline":
        fl = spec.get("flags", {})
        return models.Midline(g, is_symmetric={"lnl_spread": fl.get("lnl_sym", True)}, use_mixing=fl.get("use_mixing", True),
                              use_central=fl.get("use_central", False), use_midext_evo=fl.get("use_midext_evo", True),
                              marginalize_unknown=fl.get("marginalize_unknown", True), uni_kwargs=uk)
    if cls == "HPVUnilateral":
        return models.HPVUnilateral(g, uni_kwargs=uk)
    raise HarnessError(f"unknown class {cls}")


def leaves(m):
    from lymph import models
    if isinstance(m, models.Unilateral):
        return [m]
    if isinstance(m, models.Bilateral):
        return [m.ipsi, m.contra]
    if isinstance(m, models.HPVUnilateral):
        return [m.hpv, m.nohpv]
    out = []
    for b in [m.ext, m.noext] + ([m.central] if m.use_central else []) + ([m.unknown] if m.marginalize_unknown else []):
        out += [b.ipsi, b.contra]
    return out


def sub_paths(spec):
    cls = spec["cls"]
    if cls == "Unilateral":
        return [""]
    if cls == "Bilateral":
        return ["", "ipsi", "contra"]
    if cls == "HPVUnilateral":
        return ["", "hpv", "nohpv"]
    fl = spec.get("flags", {})
    bis = ["ext", "noext"] + (["central"] if fl.get("use_central") else []) + (["unknown"] if fl.get("marginalize_unknown", True) else [])
    return [""] + bis + [f"{b}.{sd}" for b in bis for sd in ("ipsi", "contra")]


def resolve(m, path):
    for part in [p for p in path.split(".") if p]:
        m = getattr(m, part)
    return m


def path_kind(spec, path):
    """class of the object a path leads to"""
    if path == "":
        return spec["cls"]
    if spec["cls"] == "Midline" and "." not in path:
        return "Bilateral"
    return "Unilateral"


def make_table(spec, tab):
    cls = spec["cls"]
    lnls = gen.lnls_of(spec["graph"])
    if cls == "Unilateral":
        return impl.table_from_patients(tab["patients"], tab["table_mods"], lnls, ("ipsi",))
    if cls == "HPVUnilateral":
        df = impl.table_from_patients(tab["patients"], tab["table_mods"], lnls, ("ipsi",))
        df[("patient", "#", "hpv_status")] = pd.Series([p.get("hpv") for p in tab["patients"]], dtype=object, index=df.index)
        return df
    return impl.table_from_patients(tab["patients"], tab["table_mods"], lnls, ("ipsi", "contra"), cls == "Midline")


def mod_objects(mods, trinary):
    from lymph.modalities import Clinical, Pathological
    return {name: (Pathological if kind == "pathological" else Clinical)(sp, sn, trinary) for name, sp, sn, kind in mods}


def dist_arg(model, d):
    if "frozen" in d:
        return list(map(float, d["frozen"]))
    from lymph.diagnosis_times import Distribution
    return Distribution(impl.FAMILIES[d["fam"]], max_time=model.max_time, **d["kw"])


def nondist_params(model):
    return {k: float(v) for k, v in model.get_params().items() if k.split("_")[0] not in STAGES}


def reset_module_caches():
    """every history starts from empty module-level caches, so that it is self-contained (replays reproduce)"""
    import lymph
    for fn in (lymph.utils.comp_transition_tensor, lymph.utils.get_state_idx_matrix, lymph.matrix.generate_transition,
               lymph.matrix.generate_observation, lymph.matrix.evolve_midext):
        if hasattr(fn, "cache_clear"):
            fn.cache_clear()


class Live:
    """a live model and the shadow configuration the harness derives from the operations it issued"""

    def __init__(self, spec):
        self.spec = spec
        self.model = construct(spec)
        self.max_time = spec["max_time"]
        self.params = None
        self.mods = []
        self.dists = {}
        self.table = None

    def fresh(self):
        m = construct(self.spec, self.max_time)
        for name, sp, sn, kind in self.mods:
            m.set_modality(name, sp, sn, kind)
        for t, d in self.dists.items():
            m.set_distribution(t, dist_arg(m, d))
        if self.params is not None and self.spec["cls"] != "HPVUnilateral":
            m.set_params(**self.params)
        if self.table is not None:
            m.load_patient_data(make_table(self.spec, self.table))
        return m

    def digest(self):
        return json.dumps([self.spec, self.max_time, self.params, self.mods, self.dists, self.table], sort_keys=True)

    # -- shadow updates (dict semantics) -------------------------------------------------------------
    def _set_mod(self, name, sp, sn, kind):
        for m in self.mods:
            if m[0] == name:
                m[1:] = [sp, sn, kind]
                return
        self.mods.append([name, sp, sn, kind])

    def mutate(self, op):
        """apply a mutator; returns None or ('err', enum)"""
        k, m = op["op"], self.model
        try:
            if k == "set_params":
                try:
                    m.set_params(**op["kw"])
                finally:
                    self.params = nondist_params(m)
                    self._dist_kw(op["kw"])
            elif k == "set_modality":
                m.set_modality(op["name"], op["spec"], op["sens"], op["kind"])
                self._set_mod(op["name"], op["spec"], op["sens"], op["kind"])
            elif k == "edit_modality":
                for leaf in leaves(m):
                    setattr(leaf.get_modality(op["name"]), op["field"], op["value"])
                for sm in self.mods:
                    if sm[0] == op["name"]:
                        sm[1 if op["field"] == "spec" else 2] = op["value"]
            elif k == "del_modality":
                m.del_modality(op["name"])
                self.mods = [x for x in self.mods if x[0] != op["name"]]
            elif k == "replace_modalities":
                m.replace_all_modalities(mod_objects(op["mods"], self.spec["graph"]["base"] == 3))
                self.mods = []
                for name, sp, sn, kind in op["mods"]:
                    self._set_mod(name, sp, sn, kind)
            elif k == "clear_modalities":
                m.clear_modalities()
                self.mods = []
            elif k == "set_distribution":
                arg, shadow = None, op["dist"]
                if op.get("from") is not None:
                    # pass the LIVE Distribution object held by another instance / T-stage (set_distribution must copy it);
                    # the shadow is the SOURCE's shadow at this moment (a shrunk history may have changed it)
                    j, t2 = op["from"]
                    try:
                        src_live = Live.registry[j]
                        cand = src_live.model.get_distribution(t2)
                        if cand.is_updateable and src_live.model.max_time == m.max_time and "fam" in src_live.dists.get(t2, {}):
                            arg, shadow = cand, src_live.dists[t2]
                    except Exception:  # noqa: BLE001
                        arg = None
                m.set_distribution(op["t"], arg if arg is not None else dist_arg(m, shadow))
                self.dists[op["t"]] = copy.deepcopy(shadow)
            elif k == "del_distribution":
                m.del_distribution(op["t"])
                self.dists.pop(op["t"], None)
            elif k == "replace_distributions":
                m.replace_all_distributions({t: dist_arg(m, d) for t, d in op["dists"].items()})
                self.dists = copy.deepcopy(op["dists"])
            elif k == "clear_distributions":
                m.clear_distributions()
                self.dists = {}
            elif k == "set_max_time":
                m.max_time = op["value"]
                self.max_time = op["value"]
                for t, w in op["reset"].items():
                    m.set_distribution(t, list(map(float, w)))
                    self.dists[t] = {"frozen": list(w)}
            elif k == "load":
                m.load_patient_data(make_table(self.spec, op["table"]))
                self.table = copy.deepcopy(op["table"])
            elif k == "cache_clear":
                reset_module_caches()
            else:
                raise HarnessError(f"unknown mutator {k}")
        except HarnessError:
            raise
        except Exception as e:  # noqa: BLE001
            return ("err", impl.err_enum(e))
        return None

    def _dist_kw(self, kw):
        apply_dist_kw(self.dists, kw)


def run_query(m, op):
    """a query on a model object; ('ok', value) or ('err', enum)"""
    k = op["op"]
    try:
        if k == "data_matrix":
            v = np.asarray(m.data_matrix(op["t"]), dtype=float)
        elif k == "diagnosis_matrix":
            v = np.asarray(m.diagnosis_matrix(op["t"]), dtype=float)
        elif k in ("likelihood", "likelihood_given"):
            v = float(m.likelihood(given_params=op["kw"], log=op["log"], t_stage=op["t"]) if k == "likelihood_given"
                      else m.likelihood(log=op["log"], t_stage=op["t"]))
        elif k == "state_dist":
            v = np.asarray(m.state_dist(op["t"]), dtype=float)
        elif k == "obs_dist":
            v = np.asarray(m.obs_dist(t_stage=op["t"]), dtype=float)
        elif k == "risk":
            extra = {"midext": op["midext"]} if "midext" in op else {}
            v = np.asarray(m.risk(involvement=op["inv"], given_diagnosis=op["diag"], t_stage=op["t"], **extra), dtype=float)
        elif k == "transition_matrix":
            v = np.asarray(m.transition_matrix(), dtype=float)
        elif k == "observation_matrix":
            v = np.asarray(m.observation_matrix(), dtype=float)
        elif k == "patient_data":
            v = float(len(m.patient_data))
        elif k == "get_params":
            v = {kk: float(x) for kk, x in m.get_params().items()}
        else:
            raise HarnessError(f"unknown query {k}")
    except HarnessError:
        raise
    except Exception as e:  # noqa: BLE001
        return ("err", impl.err_enum(e))
    return ("ok", v)


class uncached:
    """While the fresh model is evaluated the module-level functools caches are bypassed (their `__wrapped__` functions are
    called), so that the fresh answer cannot be contaminated by entries the live instances left there."""
    NAMES = ("comp_transition_tensor", "get_state_idx_matrix", "generate_transition", "generate_observation", "evolve_midext")

    def __enter__(self):
        import sys
        self.saved = []
        for mname, mod in list(sys.modules.items()):
            if mname == "lymph" or mname.startswith("lymph."):
                for n in self.NAMES:
                    f = getattr(mod, n, None)
                    if f is not None and hasattr(f, "__wrapped__") and hasattr(f, "cache_info"):
                        self.saved.append((mod, n, f))
                        setattr(mod, n, f.__wrapped__)
        # any OTHER module-level cache (a cachetools.Cache object, or the `.cache` of a cachetools.cached function) is
        # emptied while the fresh model is evaluated and put back afterwards (R6-C09-m1: a new process-wide cache)
        self.emptied = []
        try:
            import cachetools
            seen = set()
            for mname, mod in list(sys.modules.items()):
                if mname == "lymph" or mname.startswith("lymph."):
                    for n, v in list(vars(mod).items()):
                        for c in (v, getattr(v, "cache", None)):
                            if isinstance(c, cachetools.Cache) and id(c) not in seen:
                                seen.add(id(c))
                                self.emptied.append((c, list(c.items())))
                                c.clear()
        except Exception:  # noqa: BLE001
            pass
        return self

    def __exit__(self, *exc):
        for mod, n, f in self.saved:
            setattr(mod, n, f)
        for c, items in self.emptied:
            try:
                c.clear()
                for k, v in items:
                    c[k] = v
            except Exception:  # noqa: BLE001
                pass
        return False


def same(a, b, tol=1e-9):
    if a[0] != b[0]:
        return False
    if a[0] == "err":
        return a[1] == b[1]
    x, y = a[1], b[1]
    if isinstance(x, dict) or isinstance(y, dict):
        return isinstance(x, dict) and isinstance(y, dict) and list(x) == list(y) and all(
            abs(x[k] - y[k]) <= tol * max(1.0, abs(y[k])) for k in x)
    x, y = np.asarray(x, dtype=float), np.asarray(y, dtype=float)
    if x.shape != y.shape:
        return x.size == 0 and y.size == 0
    if x.size == 0:
        return True
    with np.errstate(invalid="ignore"):
        fin = np.isfinite(x) & np.isfinite(y)
        if not np.array_equal(np.isnan(x), np.isnan(y)):
            return False
        inf_ok = np.all((x == y) | fin | np.isnan(x))
        return bool(inf_ok and np.all(np.abs(x[fin] - y[fin]) <= tol * np.maximum(1.0, np.abs(y[fin]))))


def where_differs(a, b):
    try:
        x, y = np.asarray(a[1], dtype=float), np.asarray(b[1], dtype=float)
        if x.shape != y.shape:
            return {"shape_actual": list(x.shape), "shape_expected": list(y.shape)}
        with np.errstate(invalid="ignore"):
            d = np.abs(np.nan_to_num(x, nan=1e300, posinf=1e301, neginf=-1e301) - np.nan_to_num(y, nan=1e300, posinf=1e301, neginf=-1e301))
        idx = tuple(int(i) for i in np.unravel_index(int(np.argmax(d)), d.shape)) if d.ndim else ()
        return {"index": list(idx), "actual_at": float(x[idx]), "expected_at": float(y[idx])}
    except Exception:  # noqa: BLE001
        return {}


def brief(r):
    if r is None:
        return None
    if r[0] == "err":
        return f"raised {r[1]}"
    v = r[1]
    if isinstance(v, dict):
        return v
    a = np.asarray(v, dtype=float)
    return a.tolist() if a.size <= 64 else {"shape": list(a.shape), "head": a.ravel()[:16].tolist()}


# ======================================================================================================
# (b) the property on the implementation: live vs fresh, purity
# ======================================================================================================
def check_py(case, fresh_memo=None, stop_first=True):
    """Run a history on live models; returns a list of mismatch dicts (empty = property holds on this history)."""
    reset_module_caches()
    lives = [Live(sp) for sp in case["instances"]]
    Live.registry = lives
    bad = []
    for k, op in enumerate(normalise(case)):
        lv = lives[op["i"]] if "i" in op else lives[0]
        if op["op"] not in QUERIES:
            lv.mutate(op)
            continue
        target = resolve(lv.model, op.get("path", ""))
        r1 = run_query(target, op)
        if op["op"] == "likelihood_given":
            lv.params = nondist_params(lv.model)
            lv._dist_kw(op["kw"])
            again = dict(op, op="likelihood")          # likelihood() after likelihood(given_params=...)
        else:
            again = op
        r2 = run_query(target, again)
        STATS[f"py:{path_kind(lv.spec, op.get('path', ''))}.{op['op']}:{r1[0] if r1[0] == 'ok' else r1[1]}"] += 1
        what = None
        if op["op"] == "likelihood_given" and any(v < 0 for v in op["kw"].values()):
            r1 = r2          # a rejected proposal is scored -inf by design (C12); only the state it leaves is C09's business
        if not same(r1, r2):
            what = {"observable": f"{_call(op)} repeated", "actual": brief(r2), "expected": brief(r1),
                    "statement": "queries are pure: repeating a query changes nothing (C09_repeated_query)"}
        else:
            key = None
            if fresh_memo is not None:
                key = (lv.digest(), json.dumps(again, sort_keys=True))
            if key is not None and key in fresh_memo:
                rf = fresh_memo[key]
            else:
                with uncached():
                    rf = run_query(resolve(lv.fresh(), op.get("path", "")), again)
                if key is not None:
                    fresh_memo[key] = rf
            if not same(r1, rf):
                what = {"observable": f"{_call(op)} on the live {lv.spec['cls']} vs a freshly constructed one",
                        "actual": brief(r1), "expected": brief(rf), "first_difference": where_differs(r1, rf),
                        "statement": "every query equals the query on a fresh model with the same configuration (C09_fresh_equiv)"}
            elif lv.spec["cls"] != "HPVUnilateral" and lv.params is not None and not same(("ok", nondist_params(lv.model)), ("ok", lv.params)):
                what = {"observable": "get_params() changed without a parameter-setting call", "actual": nondist_params(lv.model),
                        "expected": lv.params, "statement": "queries and non-parameter mutators leave the parameters alone"}
        if what:
            what["step"] = k
            what["class"] = lv.spec["cls"]
            what["query"] = op["op"]
            bad.append(what)
            if stop_first:
                break
    return bad


def _call(op):
    args = {k: v for k, v in op.items() if k not in ("op", "i", "path")}
    p = op.get("path", "")
    return f"model[{op.get('i', 0)}]{'.' + p if p else ''}.{op['op']}({', '.join(f'{k}={v!r}' for k, v in args.items())})"


def shrink_py(case, budget_s=25.0):
    t0 = time.time()
    cur = case
    progress = True
    while progress and time.time() - t0 < budget_s:
        progress = False
        for cand in candidates(cur):
            if time.time() - t0 > budget_s:
                break
            try:
                if check_py(cand):
                    cur = cand
                    progress = True
                    break
            except Exception:  # noqa: BLE001
                continue
    return cur


def candidates(case):
    out = []
    ops = case["ops"]
    n = len(ops)
    for m in sorted({n // 2, (3 * n) // 4, n - 1, n - 2}, reverse=False):     # cut the tail (a failing prefix stays failing)
        if 0 < m < n:
            c = copy.deepcopy(case)
            c["ops"] = c["ops"][:m]
            out.append(c)
    # drop an instance that no failing step needs (with its operations)
    if len(case["instances"]) > 1:
        for j in range(len(case["instances"])):
            c = copy.deepcopy(case)
            del c["instances"][j]
            c["ops"] = [dict(o, i=o["i"] - (1 if o["i"] > j else 0)) if "i" in o else o for o in c["ops"] if o.get("i", -1) != j]
            if c["ops"]:
                out.append(c)
    for j in range(len(ops)):
        c = copy.deepcopy(case)
        del c["ops"][j]
        out.append(c)
    for j, o in enumerate(ops):
        if o["op"] == "load" and len(o["table"]["patients"]) > 1:
            for r in range(len(o["table"]["patients"])):
                c = copy.deepcopy(case)
                del c["ops"][j]["table"]["patients"][r]
                out.append(c)
    return out


# ======================================================================================================
# (a) the Coq tie on Unilateral histories
# ======================================================================================================
def coq_dist_term(d):
    if "frozen" in d:
        return f"(Frozen (normalize {lst(q(w) for w in d['frozen'])}))"
    return f"(Param {nat(d['fam'])} {lst(tup(s(k), q(v)) for k, v in d['kw'].items())})"


def coq_ops(case):
    """Gallina terms of the history and, per python op, the index of the Coq op carrying its output"""
    terms = [f"U_New {coq_graph(sp['graph'])} {nat(sp['max_time'])}" for sp in case["instances"]]
    last = []
    for op in normalise(case):
        i = nat(op.get("i", 0))
        g = case["instances"][op.get("i", 0)]["graph"]
        k = op["op"]
        ot = opt(op.get("t"), s)
        if k in ("set_params", "likelihood_given"):
            ek = {n: v for n, v in op["kw"].items() if n.rpartition("_")[2] in ("spread", "micro", "growth")}
            dk = [(n.split("_")[0], n.split("_")[1], v) for n, v in op["kw"].items() if n not in ek]
            terms.append(f"U_SetParams {i} {coq_edge_params(g, ek)} {lst(tup(s(t), s(p), q(v)) for t, p, v in dk)}")
            if k == "likelihood_given":
                terms.append(f"U_Query {i} (QLik {ot})")
        elif k == "set_modality":
            terms.append(f"U_SetMod {i} {s(op['name'])} {coq_modality([op['name'], op['spec'], op['sens'], op['kind']])}")
        elif k == "edit_modality":
            terms.append(f"U_UpdMod {i} {s(op['name'])} {boolean(op['field'] == 'spec')} {q(op['value'])}")
        elif k == "del_modality":
            terms.append(f"U_DelMod {i} {s(op['name'])}")
        elif k == "replace_modalities":
            terms.append(f"U_ReplaceMods {i} {coq_mods(op['mods'])}")
        elif k == "clear_modalities":
            terms.append(f"U_ClearMods {i}")
        elif k == "set_distribution":
            terms.append(f"U_SetDist {i} {s(op['t'])} {coq_dist_term(op['dist'])}")
        elif k == "del_distribution":
            terms.append(f"U_DelDist {i} {s(op['t'])}")
        elif k == "replace_distributions":
            terms.append(f"U_ReplaceDists {i} {lst(tup(s(t), coq_dist_term(d)) for t, d in op['dists'].items())}")
        elif k == "clear_distributions":
            terms.append(f"U_ClearDists {i}")
        elif k == "set_max_time":
            terms.append(f"U_SetMaxTime {i} {nat(op['value'])}")
            for t, w in op["reset"].items():
                terms.append(f"U_SetDist {i} {s(t)} {coq_dist_term({'frozen': w})}")
        elif k == "load":
            terms.append(f"U_Load {i} {lst(coq_patient(p, 'ipsi', tmap) for p in op['table']['patients'])}")
        elif k == "cache_clear":
            terms.append("U_EvictM 0%nat")
        elif k == "data_matrix":
            terms.append(f"U_DataMatrix {i} {ot}")
        elif k == "diagnosis_matrix":
            terms.append(f"U_DiagMatrix {i} {ot}")
        elif k == "patient_data":
            terms.append(f"U_PatientData {i}")
        elif k == "likelihood":
            terms.append(f"U_Query {i} (QLik {ot})")
        elif k == "state_dist":
            terms.append(f"U_Query {i} (QStateDist {s(op['t'])})")
        elif k == "obs_dist":
            terms.append(f"U_Query {i} (QObsDist {s(op['t'])})")
        elif k == "risk":
            d = "None" if op["diag"] is None else f"(Some {coq_diagnosis(op['diag'])})"
            terms.append(f"U_Query {i} (QRisk {coq_pattern(op['inv'])} {d} {s(op['t'])})")
        elif k == "transition_matrix":
            terms.append(f"U_Query {i} QTransition")
        elif k == "observation_matrix":
            terms.append(f"U_Query {i} QObservation")
        else:
            raise HarnessError(f"no Coq counterpart for {k}")
        last.append(len(terms) - 1)
    return terms, last


def coq_expr(case):
    return f"uni_trace {lst('(' + t + ')' for t in coq_ops(case)[0])}"


def py_view(m):
    from lymph.modalities import Pathological
    return {"params": {k: float(v) for k, v in m.get_params().items()},
            "mods": [[n, float(x.spec), float(x.sens), isinstance(x, Pathological)] for n, x in m.get_all_modalities().items()],
            "dists": [[t, ({k: float(v) for k, v in d.get_params().items()} if d.is_updateable else None)]
                      for t, d in m.get_all_distributions().items()],
            "max_time": int(m.max_time)}


def impl_fn(case):
    reset_module_caches()
    lives = [Live(sp) for sp in case["instances"]]
    Live.registry = lives
    outs = []
    for op in normalise(case):
        lv = lives[op.get("i", 0)]
        if op["op"] in QUERIES:
            r = run_query(lv.model, op)
            if op["op"] == "likelihood_given":
                lv.params = nondist_params(lv.model)
        else:
            r = lv.mutate(op)
        outs.append((r, py_view(lv.model)))
    return outs


def _pout(v):
    """parsed pout -> (tag, payload)"""
    if isinstance(v, tuple) and v and v[0] == "ctor":
        return (v[1], None)
    return (v[0], v[1] if len(v) > 1 else None)


def cmp_output(op, r, pv):
    tag, pay = _pout(pv)
    name = _call(op)
    if r is None or (r[0] == "err"):
        exp_err = pay if tag == "PErr" else None
        got_err = r[1] if r is not None else None
        if tag == "PNone" and r is None:
            return None
        if exp_err is not None and got_err == exp_err:
            return None
        return {"observable": name, "actual": f"raised {got_err}" if got_err else "returned normally",
                "expected": f"raises {exp_err}" if exp_err else f"a value ({tag})"}
    if tag == "PErr":
        return {"observable": name, "actual": brief(r), "expected": f"raises {pay}"}
    v = r[1]
    k = op["op"]
    if tag in ("PBMat", "PMat"):
        exp = [[1.0 if x else 0.0 for x in row] for row in pay] if tag == "PBMat" else fracs(pay)
        a = np.asarray(v, dtype=float)
        if len(exp) == 0 or a.size == 0:
            if len(exp) == 0 and a.shape[0] == 0 or (a.size == 0 and all(len(r_) == 0 for r_ in exp)):
                return None
            return {"observable": name, "shape_actual": list(a.shape), "rows_expected": len(exp)}
        d = first_diff(a, exp)
        return None if d is None else {"observable": name, **d}
    if tag == "PVec":
        fs = fracs(pay)
        if k in ("likelihood", "likelihood_given"):
            if op["log"]:
                exp = -math.inf if any(f == 0 for f in fs) else sum(math.log(f.numerator) - math.log(f.denominator) for f in fs)
                ok = (v == exp) if math.isinf(exp) else (not math.isnan(v) and abs(v - exp) <= 1e-9 * max(1.0, abs(exp)))
            else:
                exp = 1
                for f in fs:
                    exp *= f
                ok = Ctx.close(v, exp)
            return None if ok else {"observable": name, "actual": v, "expected": float(exp), "factors": fs}
        d = first_diff(np.asarray(v, dtype=float), fs)
        return None if d is None else {"observable": name, **d}
    if tag == "POptQ":
        a = float(np.asarray(v, dtype=float))
        if pay is None:
            return None if math.isnan(a) else {"observable": name, "actual": a, "expected": "nan (zero evidence)"}
        e = fracs(pay[1])
        return None if Ctx.close(a, e) else {"observable": name, "actual": a, "expected": float(e)}
    if tag == "PLen":
        return None if int(v) == pay else {"observable": name, "actual": int(v), "expected": pay}
    return {"observable": name, "actual": brief(r), "expected": f"{tag}"}


def cmp_view(op, view, cv):
    """observable configuration after a step vs the Spec machine's configuration"""
    if cv is None:
        return {"observable": "configuration", "actual": view, "expected": "no such instance"}
    edges, mods, dists, maxt = cv[1]
    name = f"configuration after {_call(op)}"
    E = {}
    for en, pr in edges:
        sn, sd, mi = pr
        E[en] = (fracs((sn, sd)), fracs(mi))
    for k, v in view["params"].items():
        pre, _, kind = k.rpartition("_")
        if kind in ("spread", "growth"):
            e = E.get(pre, (None, None))[0]
        elif kind == "micro":
            e = E.get(pre, (None, None))[1]
        else:
            continue
        if e is None or abs(v - float(e)) > 1e-12:
            return {"observable": f"{name}: get_params()[{k!r}]", "actual": v, "expected": None if e is None else float(e)}
    cm = [[n, float(fracs((a, b))), float(fracs(sens)), bool(path)] for n, (a, b, sens, path) in mods]
    if [m[0] for m in cm] != [m[0] for m in view["mods"]] or any(
            abs(x[1] - y[1]) > 1e-12 or abs(x[2] - y[2]) > 1e-12 or x[3] != y[3] for x, y in zip(cm, view["mods"])):
        return {"observable": f"{name}: modalities (name, spec, sens, pathological)", "actual": view["mods"], "expected": cm}
    cd = []
    for t, kw in dists:
        cd.append([t, None if kw is None else {k: float(fracs(v)) for k, v in kw[1]}])
    ok = [d[0] for d in cd] == [d[0] for d in view["dists"]]
    if ok:
        for x, y in zip(cd, view["dists"]):
            if (x[1] is None) != (y[1] is None) or (x[1] is not None and (
                    list(x[1]) != list(y[1]) or any(abs(x[1][k] - y[1][k]) > 1e-12 for k in x[1]))):
                ok = False
    if not ok:
        return {"observable": f"{name}: distributions (stage, keywords)", "actual": view["dists"], "expected": cd}
    if maxt != view["max_time"]:
        return {"observable": f"{name}: max_time", "actual": view["max_time"], "expected": maxt}
    return None


def compare(case, obs, val):
    if obs[0] == "err":
        return {"observable": "history", "actual": f"harness could not run the history: {obs[1]} {obs[2]}", "expected": "outputs"}
    outs = obs[1]
    ops = normalise(case)
    _, last = coq_ops(case)
    if len(val) != last[-1] + 1 if last else len(val) != len(case["instances"]):
        raise HarnessError("Coq trace length differs from the history length")
    for k, (op, (r, view)) in enumerate(zip(ops, outs)):
        pv, cv = val[last[k]]
        if op["op"] in QUERIES:
            STATS[f"coq:{op['op']}:{_pout(pv)[0] if _pout(pv)[0] != 'PErr' else _pout(pv)[1]}"] += 1
        mm = cmp_output(op, r, pv)
        if mm is None:
            mm = cmp_view(op, view, cv)
        if mm is not None:
            mm["step"] = k
            mm["query"] = op["op"]
            mm["statement"] = ("the implementation's answer differs from the cache-free Spec machine run on the same history "
                               "(Machine.uni_trace; C09_history_independent identifies it with the cached machine)")
            return mm
    return None


# ======================================================================================================
# generators
# ======================================================================================================
def sv(rng):
    r = rng.random()
    if r < 0.15:
        return 1.0
    if r < 0.25:
        return 0.5
    return rng.randint(8, 16) / 16.0


def gen_table(rng, spec, mods_now, lo=0, hi=5, small=False):
    lnls = gen.lnls_of(spec["graph"])
    table_mods = list(mods_now)
    if rng.random() < 0.2:
        table_mods.append("XX")
    if table_mods and rng.random() < 0.15:
        table_mods.remove(rng.choice(table_mods))
    if rng.random() < 0.6:      # columns of modalities the model does not (yet) know: needed to observe renames
        for m in MODS:
            if m not in table_mods and rng.random() < 0.7:
                table_mods.append(m)
    cls = spec["cls"]
    sides = ("ipsi",) if cls in ("Unilateral", "HPVUnilateral") else ("ipsi", "contra")
    n = rng.randint(lo, 1 if small else hi)
    pats = [gen.gen_patient(rng, table_mods, lnls, sides, cls == "Midline") for _ in range(n)]
    for p in pats:
        if p.get("central") is True:
            p["ext"] = True
        if cls == "HPVUnilateral":
            p["hpv"] = rng.choice([True, False, None])
    return {"patients": pats, "table_mods": table_mods}


def edge_groups(gspec):
    """parameter names grouped by edge (so that an edge is always set completely)"""
    groups = {}
    for n in gen.edge_param_names(gspec):
        groups.setdefault(n.rpartition("_")[0], []).append(n)
    return list(groups.values())


class GState:
    def __init__(self, spec, names, pool=None):
        self.spec, self.names = spec, names
        self.mt = spec["max_time"]
        self.mods, self.dists, self.has_table, self.loads = {}, {}, False, 0
        self.params = {}                      # last value the generator issued per parameter name
        self.pool = pool if pool is not None else {}     # values issued to ANY instance, per short parameter name

    def value(self, rng, name):
        """a parameter value; often one that this or another live instance already uses (equal arguments reach the
        value-keyed module caches from different instances / at different times)"""
        short = "_".join(name.split("_")[-2:])
        r = rng.random()
        if r < 0.2 and name in self.params:
            v = self.params[name]
        elif r < 0.45 and short in self.pool:
            v = rng.choice(self.pool[short])
        else:
            v = gen.gen_value(rng)
        self.params[name] = v
        self.pool.setdefault(short, []).append(v)
        return v


def gen_op(rng, gs: GState, i, coq: bool):
    """one random operation for instance i given the generator's abstract state"""
    spec = gs.spec
    cls = spec["cls"]
    lnls = gen.lnls_of(spec["graph"])
    stages = list(gs.dists) or ["early"]
    r = rng.random()
    def tsel(allow_none=True):
        pool = list(gs.dists) * 3 + ([None] * 3 if allow_none else []) or ["early"]
        if rng.random() < 0.1:
            pool = ["early", "late", "X", "nostage"]
        return rng.choice(pool)
    if r < 0.42:                                            # ---- queries
        path = "" if coq or rng.random() < 0.5 else rng.choice(sub_paths(spec))
        kind = path_kind(spec, path)
        if kind == "Unilateral":
            qk = rng.choice(["data_matrix", "diagnosis_matrix", "diagnosis_matrix", "likelihood", "likelihood", "state_dist", "risk",
                             "obs_dist", "transition_matrix", "observation_matrix", "patient_data"] +
                            (["likelihood_given"] if path == "" else []))
        elif kind == "HPVUnilateral":
            qk = "likelihood"
        else:
            qk = rng.choice(["likelihood", "likelihood", "state_dist", "risk", "get_params"] + (["likelihood_given"] if path == "" else []))
        op = {"op": qk, "i": i}
        if path:
            op["path"] = path
        if qk in ("data_matrix", "diagnosis_matrix"):
            op["t"] = tsel()
        elif qk in ("likelihood", "likelihood_given"):
            op["log"], op["t"] = rng.random() < 0.7, tsel()
            if qk == "likelihood_given":
                op["kw"] = gen_param_kw(rng, gs, coq)
        elif qk in ("state_dist", "obs_dist"):
            op["t"] = tsel(False)
        elif qk == "risk":
            op["t"] = tsel(False)
            def pat():
                return {l: rng.choice([True, False, None]) for l in lnls if rng.random() < 0.8}
            def diag():
                if rng.random() < 0.25:
                    return None
                return {m: pat() for m in list(gs.mods) + (["XX"] if rng.random() < 0.1 else []) if rng.random() < 0.8}
            if kind == "Unilateral":
                op["inv"], op["diag"] = pat(), diag()
            else:
                op["inv"] = {"ipsi": pat(), "contra": pat()}
                d = diag()
                op["diag"] = None if d is None else {"ipsi": d, "contra": diag() or {}}
                if kind == "Midline":
                    op["midext"] = rng.choice([None, True, False])
        return op
    r = rng.random()                                        # ---- mutators
    if r < 0.16 and cls != "HPVUnilateral":
        return {"op": "set_params", "i": i, "kw": gen_param_kw(rng, gs, coq)}
    if r < 0.30:
        name = rng.choice(MODS if rng.random() < 0.6 or not gs.mods else list(gs.mods))      # equal NAME, new values
        op = {"op": "set_modality", "i": i, "name": name, "spec": sv(rng), "sens": sv(rng), "kind": rng.choice(["clinical", "pathological"])}
        known = [v for v in gs.mods.values() if isinstance(v, list)]
        if known and name not in gs.mods and rng.random() < 0.5:
            # a NEW name with the values of an existing modality (a later delete of the old one is a rename)
            op["spec"], op["sens"], op["kind"] = rng.choice(known)
        gs.mods[name] = [op["spec"], op["sens"], op["kind"]]
        return op
    if r < 0.38:
        name = rng.choice(list(gs.mods)) if gs.mods and rng.random() < 0.9 else rng.choice(MODS)
        return {"op": "edit_modality", "i": i, "name": name, "field": rng.choice(["spec", "sens"]),
                "value": sv(rng) if rng.random() < 0.9 else 1.5}
    if r < 0.45:
        name = rng.choice(list(gs.mods)) if gs.mods and rng.random() < 0.85 else rng.choice(MODS)
        gs.mods.pop(name, None)
        return {"op": "del_modality", "i": i, "name": name}
    if r < 0.50:
        mods = [[n, sv(rng), sv(rng), rng.choice(["clinical", "pathological"])] for n in rng.sample(MODS, rng.randint(0, 2))]
        known = [(k, v) for k, v in gs.mods.items() if isinstance(v, list)]
        if known and rng.random() < 0.5:
            # rename in place: the same values under other names (the cache key must depend on the names)
            fresh = [n for n in MODS if n not in gs.mods]
            rng.shuffle(fresh)
            mods = [[(fresh.pop() if fresh and rng.random() < 0.7 else k), v[0], v[1], v[2]] for k, v in known]
            if len({m[0] for m in mods}) < len(mods):
                mods = mods[:1]
        gs.mods = {m[0]: [m[1], m[2], m[3]] for m in mods}
        return {"op": "replace_modalities", "i": i, "mods": mods}
    if r < 0.53:
        gs.mods = {}
        return {"op": "clear_modalities", "i": i}
    if r < 0.66:
        t = rng.choice(STAGES[:2] if rng.random() < 0.9 else STAGES)
        d = gen.gen_dist(rng, gs.mt)
        if not coq and rng.random() < 0.35:
            cands = [(j, t2) for j, g2 in enumerate(getattr(gs, "all", [])) for t2, d2 in g2.dists.items()
                     if "fam" in d2 and g2.mt == gs.mt and g2.spec["cls"] != "HPVUnilateral"]
            if cands:
                j, t2 = rng.choice(cands)
                d = copy.deepcopy(gs.all[j].dists[t2])
                gs.dists[t] = d
                return {"op": "set_distribution", "i": i, "t": t, "dist": d, "from": [j, t2]}
        gs.dists[t] = d
        return {"op": "set_distribution", "i": i, "t": t, "dist": d}
    if r < 0.70:
        t = rng.choice(list(gs.dists)) if gs.dists and rng.random() < 0.85 else rng.choice(STAGES)
        gs.dists.pop(t, None)
        return {"op": "del_distribution", "i": i, "t": t}
    if r < 0.73:
        ds = {t: gen.gen_dist(rng, gs.mt) for t in rng.sample(STAGES[:2], rng.randint(0, 2))}
        gs.dists = dict(ds)
        return {"op": "replace_distributions", "i": i, "dists": ds}
    if r < 0.75:
        gs.dists = {}
        return {"op": "clear_distributions", "i": i}
    if r < 0.81:
        gs.mt = rng.choice([x for x in range(0, 4) if x != gs.mt])
        reset = {}
        for t, d in gs.dists.items():
            if "frozen" in d:
                d["frozen"] = gen.gen_dist(random_frozen(rng), gs.mt)["frozen"]
                reset[t] = list(d["frozen"])
        return {"op": "set_max_time", "i": i, "value": gs.mt, "reset": reset}
    if r < 0.97:
        gs.loads += 1
        tab = gen_table(rng, spec, list(gs.mods), small=gs.has_table and rng.random() < 0.5)   # reload a SMALLER cohort
        gs.has_table = True
        return {"op": "load", "i": i, "table": tab}
    return {"op": "cache_clear"}


class random_frozen:
    """rng wrapper that makes gen.gen_dist return a frozen distribution"""
    def __init__(self, rng):
        self.rng = rng
    def random(self):
        return 0.0
    def __getattr__(self, a):
        return getattr(self.rng, a)


def gen_param_kw(rng, gs, coq):
    kw = {}
    groups = edge_groups(gs.spec["graph"])
    micro_groups = [g for g in groups if any(n.endswith("_micro") for n in g) and all(n in gs.params for n in g)]
    if micro_groups and rng.random() < 0.5:
        # same spread, new micro_mod (and the other way round): the tensor cache key differs in one argument only
        g = rng.choice(micro_groups)
        keep = rng.choice(["_spread", "_micro"])
        for n in g:
            kw[n] = gs.params[n] if n.endswith(keep) else gs.value(rng, n)
        if not coq:                # composite parameter names carry side prefixes: use the names of get_params()
            kw = {n: v for n, v in kw.items() if n in gs.names}
    elif coq:
        for g in rng.sample(groups, rng.randint(0, len(groups))):
            for n in g:
                kw[n] = gs.value(rng, n)
    else:
        names = gs.names
        r2 = rng.random()
        if names and r2 < 0.3:
            kw[rng.choice(names)] = None                                  # a single parameter
        elif names and r2 < 0.6:                                          # the parameters of one prefix group (ipsi_*, contra_*, ...)
            grp = rng.choice(sorted({n.split("_")[0] for n in names}))
            for n in [n for n in names if n.split("_")[0] == grp]:
                kw[n] = None
        else:
            for n in rng.sample(names, rng.randint(0, len(names))):
                kw[n] = None
        kw = {n: gs.value(rng, n) for n in kw}
    prev = {}
    for t, d in gs.dists.items():
        if "fam" in d and rng.random() < 0.5:
            k = rng.choice(list(d["kw"]))
            if d["fam"] == 0:
                v = gen.gen_value(rng)
            else:
                v = rng.randint(0 if k == "a" else 1, 8) / 4.0
            if not coq and rng.random() < 0.12:
                # rejected by the family: ValueError, old value restored.  Alone among the distribution keywords: a raise
                # half-way through set_params leaves the later distributions / leaves untouched (C12's business).
                for n in [n for n in kw if n.split("_")[0] in STAGES]:
                    gs.dists[n.split("_")[0]]["kw"][n.split("_")[1]] = prev[n]
                    del kw[n]
                kw[f"{t}_{k}"] = -0.5
                break
            prev[f"{t}_{k}"] = d["kw"][k]
            d["kw"][k] = v
            kw[f"{t}_{k}"] = v
    if not kw and gs.names:
        n = rng.choice(gs.names if not coq else gen.edge_param_names(gs.spec["graph"]))
        if coq:
            for m in [g for g in groups if n in g][0]:
                kw[m] = gs.value(rng, m)
        else:
            kw[n] = gs.value(rng, n)
    return kw


def gen_spec(rng, cls, small=False):
    base = rng.choice([2, 2, 3] if cls != "Unilateral" else [2, 3])
    maxl = 2 if (cls != "Unilateral" or base == 3 or small) else 3
    g = gen.gen_graph(rng, max_lnls=maxl, base=base)
    spec = {"cls": cls, "graph": g, "max_time": rng.randint(0, 3)}
    if cls == "Bilateral":
        spec["sym"] = {"tumor_spread": rng.random() < 0.4, "lnl_spread": rng.random() < 0.6}
    if cls == "Midline":
        kind = rng.choice(["evo", "central", "none"])
        spec["flags"] = {"use_mixing": rng.random() < 0.5, "lnl_sym": rng.random() < 0.5, "marginalize_unknown": rng.random() < 0.6,
                         "use_midext_evo": kind == "evo", "use_central": kind == "central"}
    return spec


def param_names(spec):
    if spec["cls"] == "HPVUnilateral":
        return []
    return list(construct(spec).get_params().keys())


def gen_history(rng, classes, nops, coq):
    specs = [gen_spec(rng, c, small=not coq) for c in classes]
    for sp in specs[1:]:
        if rng.random() < 0.5:               # same graph as the first instance: equal edges in different live models
            sp["graph"] = copy.deepcopy(specs[0]["graph"])
            ents = sp["graph"]["entries"]
            lnl_pos = [k for k, e in enumerate(ents) if e[0] == "lnl"]
            if len(lnl_pos) >= 2 and rng.random() < 0.6:
                # ... with the LNLs listed in another order (reversed, or the last one first): same arcs, other state order
                order = [ents[k] for k in lnl_pos]
                order = order[::-1] if rng.random() < 0.5 else order[-1:] + order[:-1]
                for k, e in zip(lnl_pos, order):
                    ents[k] = e
    pool = {}
    gss = [GState(sp, param_names(sp), pool) for sp in specs]
    for g_ in gss:
        g_.all = gss
    ops = []
    # a short set-up so that most queries are meaningful, in random order and not always complete
    for i, gs in enumerate(gss):
        setup = []
        if rng.random() < 0.9 and specs[i]["cls"] != "HPVUnilateral":
            setup.append({"op": "set_params", "i": i, "kw": gen_param_kw(rng, gs, coq)})
        for name in rng.sample(MODS, rng.randint(0, 2)):
            vals = [sv(rng), sv(rng), rng.choice(["clinical", "pathological"])]
            gs.mods[name] = vals
            setup.append({"op": "set_modality", "i": i, "name": name, "spec": vals[0], "sens": vals[1], "kind": vals[2]})
        for t in rng.sample(STAGES[:2], rng.randint(1, 2)):
            d = gen.gen_dist(rng, gs.mt)
            gs.dists[t] = d
            setup.append({"op": "set_distribution", "i": i, "t": t, "dist": d})
        if rng.random() < 0.8:
            gs.has_table = True
            setup.append({"op": "load", "i": i, "table": gen_table(rng, specs[i], list(gs.mods), lo=1)})
        rng.shuffle(setup)
        ops += setup
    for _ in range(nops):
        i = rng.randrange(len(specs))
        ops.append(gen_op(rng, gss[i], i, coq))
    return {"kind": "coq" if coq else "py", "instances": specs, "ops": ops}


def nontrivial(case):
    """>= 2 queries with a mutator in between, and a parameter strictly inside (0,1)"""
    qs = [k for k, o in enumerate(case["ops"]) if o["op"] in QUERIES]
    if len(qs) < 2:
        return False
    between = any(o["op"] not in QUERIES for o in case["ops"][qs[0]:qs[-1]])
    inside = any(0.0 < v < 1.0 for o in case["ops"] if o["op"] in ("set_params", "likelihood_given") for v in o["kw"].values())
    return between and inside


def kind_of(case):
    cl = "+".join(sorted(sp["cls"][:3] for sp in case["instances"]))
    return f"{case['kind']}-{cl}-len{min(len(case['ops']) // 5 * 5, 25)}"


# ======================================================================================================
# exhaustive enumeration (thorough): all operation sequences up to length 4 over a fixed alphabet
# ======================================================================================================
EX_GRAPH = {"base": 2, "entries": [["tumor", "T", ["II", "III"]], ["lnl", "II", ["III"]], ["lnl", "III", []]]}


def _p(t, ct, mri=None):
    f = {"CT": {"ipsi": {"II": ct[0], "III": ct[1]}}}
    if mri is not None:
        f["MRI"] = {"ipsi": {"II": mri[0], "III": mri[1]}}
    return {"t": t, "find": f}


EX_T3 = {"patients": [_p(1, (True, None), (False, True)), _p(3, (False, True), (None, None)), _p(0, (None, False), (True, True))],
         "table_mods": ["CT", "MRI"]}
EX_T1 = {"patients": [_p(4, (True, True), (None, False))], "table_mods": ["CT", "MRI"]}
EX_SETUP = [
    {"op": "set_params", "i": 0, "kw": {"TtoII_spread": 0.25, "TtoIII_spread": 0.125, "IItoIII_spread": 0.5}},
    {"op": "set_modality", "i": 0, "name": "CT", "spec": 0.75, "sens": 0.875, "kind": "clinical"},
    {"op": "set_distribution", "i": 0, "t": "early", "dist": {"fam": 0, "kw": {"p": 0.5}}},
    {"op": "set_distribution", "i": 0, "t": "late", "dist": {"frozen": [1, 2, 1]}},
    {"op": "load", "i": 0, "table": EX_T3},
]
EX_ALPHABET = [
    {"op": "set_modality", "i": 0, "name": "CT", "spec": 0.625, "sens": 0.75, "kind": "pathological"},   # equal name, new values
    {"op": "set_modality", "i": 0, "name": "MRI", "spec": 1.0, "sens": 0.5, "kind": "clinical"},
    {"op": "del_modality", "i": 0, "name": "CT"},
    {"op": "edit_modality", "i": 0, "name": "CT", "field": "spec", "value": 0.5},
    {"op": "load", "i": 0, "table": EX_T3},
    {"op": "load", "i": 0, "table": EX_T1},
    {"op": "set_params", "i": 0, "kw": {"TtoII_spread": 0.75, "early_p": 0.25}},
    {"op": "set_max_time", "i": 0, "value": 3, "reset": {"late": [1, 0, 2, 1]}},
    {"op": "diagnosis_matrix", "i": 0, "t": "early"},
    {"op": "data_matrix", "i": 0, "t": "late"},
    {"op": "likelihood", "i": 0, "log": True, "t": None},
    {"op": "state_dist", "i": 0, "t": "early"},
]
EX_PROBES = [{"op": "diagnosis_matrix", "i": 0, "t": "early"}, {"op": "data_matrix", "i": 0, "t": None},
             {"op": "likelihood", "i": 0, "log": True, "t": None}, {"op": "likelihood", "i": 0, "log": False, "t": "late"}]


def ex_case(seq, kind="py"):
    return {"kind": kind, "instances": [{"cls": "Unilateral", "graph": EX_GRAPH, "max_time": 2}],
            "ops": copy.deepcopy(EX_SETUP) + [copy.deepcopy(EX_ALPHABET[j]) for j in seq] + copy.deepcopy(EX_PROBES)}


# ======================================================================================================
# reporting
# ======================================================================================================
def report_py(ctx, case, bad, origin):
    case = dict(case, ops=case["ops"][:bad[0]["step"] + 1])
    small = shrink_py(case) if bad[0].get("query") != "construct" else case
    try:
        b2 = check_py(small) or bad
    except HarnessError:
        raise
    except Exception:  # noqa: BLE001
        b2 = bad
    mm = b2[0]
    ctx.violation(f"{mm['observable']}: history dependence",
                  {"case": small, "mismatch": mm, "origin": origin,
                   "call": "build the instances; apply ops in order; " + str(mm["observable"]),
                   "broken": "C09 relation on the implementation: live model vs freshly constructed model / repeated query"},
                  {"class": mm.get("class"), "call": mm.get("query"), "part": "B-py"})


def sig_fn(case, mm):
    return {"class": "Unilateral", "call": str(mm.get("query")), "part": "B-coq"}


def run_py_cases(ctx, cases, origin, memo=None, max_reports=3):
    reported = []
    for c in cases:
        try:
            bad = check_py(c, memo)
        except HarnessError:
            raise
        except Exception as e:  # noqa: BLE001   (constructing a model / a fresh model raised: not a legal outcome)
            bad = [{"observable": f"running the history raised {type(e).__name__}: {str(e)[:200]}", "step": len(c["ops"]) - 1,
                    "class": c["instances"][0]["cls"], "query": "construct", "actual": impl.err_enum(e), "expected": "no exception"}]
        if bad:
            sig = (bad[0].get("class"), bad[0].get("query"), bad[0]["observable"].split(" ")[-1])
            if sig in reported or len(reported) >= max_reports:
                continue
            reported.append(sig)
            report_py(ctx, c, bad, origin)
    return reported


def load_corpus():
    cdir = VERIF / "corpus" / "C09"
    out = []
    if cdir.is_dir():
        for f in sorted(cdir.glob("*.json")):
            out.append(json.loads(f.read_text())["case"])
    return out


def run(ctx: Ctx, a_ok: bool):
    ctx.cone = ["Machine.uni_sig (configuration evolution of Unilateral: set_params / modalities / distributions / max_time / load)",
                "Machine.sstep / srun (cache-free Spec machine)", "Machine.istep (dependency structure of the caches)",
                "Unilateral.data_matrix / diagnosis_matrix / hmm_likelihood_factors / state_dist / risk (as oracle of the queries)"]
    ctx.rule = ("histories = set-up (params, modalities, distributions, load; shuffled, sometimes incomplete) + 3-16 random operations "
                "over {set_params(**kw), set/edit-in-place/del/replace/clear modality (incl. equal name, new values), "
                "set/del/replace/clear distribution (frozen | parametric), max_time change + re-set frozen distributions, "
                "load_patient_data (different sizes, reload smaller cohort, table modalities != model modalities), cache_clear, "
                "queries data_matrix/diagnosis_matrix (stage | None | unknown stage), likelihood (log/linear, stage, given_params), "
                "state_dist, obs_dist, risk, transition/observation matrix, patient_data}; (a) 1-2 Unilateral instances vs Coq "
                "Machine.uni_trace: every output and the configuration after every step; (b) 2-3 live instances of Unilateral / "
                "Bilateral / Midline (flag combinations) / HPVUnilateral incl. sub-model queries: every query vs a freshly "
                "constructed model from the harness' shadow configuration, and repeated twice; non-trivial iff >= 2 queries "
                "with a mutator in between and a parameter strictly inside (0,1)")
    rng = ctx.rng
    quick = ctx.tier == "quick"
    corpus = load_corpus()
    for c in corpus:
        ctx.count(c, nontrivial(c), "corpus-" + c["kind"])
    # ---- corpus first
    coq_corpus = [c for c in corpus if c["kind"] == "coq" or all(sp["cls"] == "Unilateral" for sp in c["instances"])
                  and all(o.get("path", "") == "" and o["op"] != "get_params" for o in c["ops"])]
    run_py_cases(ctx, corpus, "corpus")
    # ---- (b) the property on the implementation
    n_py = 90 if quick else 1500
    pool = ["Unilateral", "Unilateral", "Bilateral", "Bilateral", "Midline", "Midline", "HPVUnilateral"]
    py_cases = []
    for _ in range(n_py):
        classes = [rng.choice(pool) for _ in range(rng.choice([2, 2, 3]))]
        if classes.count("Midline") > 1:
            classes = ["Midline"] + [c if c != "Midline" else "Bilateral" for c in classes[1:]]
        py_cases.append(gen_history(rng, classes, rng.randint(3, 16), coq=False))
    for c in py_cases:
        ctx.count(c, nontrivial(c), kind_of(c))
    run_py_cases(ctx, py_cases, "generated")
    # ---- (a) the Coq tie
    n_coq = 60 if quick else 600
    coq_cases = list(coq_corpus)
    for _ in range(n_coq):
        classes = ["Unilateral"] * rng.choice([1, 1, 2])
        coq_cases.append(dict(gen_history(rng, classes, rng.randint(3, 16), coq=True), kind="coq"))
    for c in coq_cases[len(coq_corpus):]:
        ctx.count(c, nontrivial(c), kind_of(c))
    run_standard(ctx, coq_cases, impl_fn, coq_expr, compare, IMPORTS, candidates, sig_fn=sig_fn,
                 call_fn=lambda c, mm: "build the instances; apply ops in order; " + str(mm.get("observable")),
                 broken="correspondence Machine.uni_trace (Spec machine of C09) vs /repo", shard=6)
    # ---- thorough: exhaustive enumeration of short operation sequences on a fixed model
    if not quick:
        memo = {}
        seqs = [sq for n in range(0, 5) for sq in itertools.product(range(len(EX_ALPHABET)), repeat=n)]
        ex_cases = [ex_case(sq) for sq in seqs]
        for c in ex_cases:
            ctx.count(c, True, "exhaustive-len%d" % (len(c["ops"]) - len(EX_SETUP) - len(EX_PROBES)))
        rep = run_py_cases(ctx, ex_cases, "exhaustive", memo)
        ctx.exhaustive = True
        ctx.notes.append(f"exhaustive: all {len(seqs)} operation sequences of length <= 4 over a {len(EX_ALPHABET)}-operation alphabet on a "
                         "fixed 2-LNL Unilateral model (live vs fresh after every query and on 4 final probes); those of length <= 2 "
                         "also against Machine.uni_trace")
        short = [ex_case(sq, "coq") for sq in seqs if len(sq) <= 2]
        run_standard(ctx, short, impl_fn, coq_expr, compare, IMPORTS, candidates, sig_fn=sig_fn,
                     call_fn=lambda c, mm: "build the instances; apply ops in order; " + str(mm.get("observable")),
                     broken="correspondence Machine.uni_trace vs /repo (exhaustive short sequences)", tag="exh", shard=8)
    for k_, v_ in sorted(STATS.items()):
        ctx.hist["q/" + k_] = v_
    ctx.notes.append("partial: process-level effects (interpreter hash randomisation, id reuse, hash collisions) and aliasing of "
                     "returned numpy arrays are not expressible in the model; PYTHONHASHSEED=0 is fixed by ./check")


def replay(ctx: Ctx, path: str) -> int:
    data = json.loads(open(path).read())
    case = data["case"]
    rc = 0
    bad = check_py(case)
    if bad:
        print("REPRODUCED (live vs fresh / purity)", json.dumps(bad[0], default=str))
        rc = 1
    if all(sp["cls"] == "Unilateral" for sp in case["instances"]) and all(
            o.get("path", "") == "" and o["op"] != "get_params" for o in case["ops"]):
        b2 = correspondence(ctx, [case], impl_fn, coq_expr, compare, IMPORTS, tag="replay")
        if b2:
            print("REPRODUCED (implementation vs Machine.uni_trace)", json.dumps(b2[0][1], default=str))
            rc = 1
    if rc == 0:
        print("not reproduced")
    return rc
