"""C10: parameters round-trip (what is set is what is got, in the documented order).

Tie: for every model class and configuration, a history of setter calls
(set_params / set_tumor_spread_params / set_lnl_spread_params / set_spread_params /
set_distribution_params; positional, keyword, mixed, global names, unknown names,
partial, surplus, malformed values) is run on a fresh /repo object and on the Coq
model (Params.run_calls).  After every call the check compares: raised or not, the
returned surplus, get_params(as_dict=True) (names, order, values), the nested form
get_params(as_flat=False), every sub-model's own get_params, mixing / midext_prob.
In addition the relations of the property are evaluated on the implementation alone
(round trips, identity, keyword over positional, specific over global, unknown names,
nested = flat, documented names without duplicates): that is the failing-input search.
"""
from __future__ import annotations

import copy
import itertools
import json
import math

from .. import gen, impl
from ..core import Ctx, HarnessError, jsonable, run_coq_cases, shrink
from ..core import q, s, lst, tup, nat, boolean
from ..coqterms import coq_gdict

IMPORTS = "Base States Linalg Graph Transition Observation Dist Unilateral Models Params"
TOL = 1e-9
SETTERS = {"set_params": "SetParams", "set_tumor_spread_params": "SetTumorSpread",
           "set_lnl_spread_params": "SetLnlSpread", "set_spread_params": "SetSpread",
           "set_distribution_params": "SetDist"}
D6_CONFIG = "lnl_spread asymmetric and tumor_spread asymmetric"
D6_RELATION = "order(get_params) != order(set_params positional)"


# --------------------------------------------------------------------------
# values
# --------------------------------------------------------------------------
def fv(x) -> float:
    """case value -> float ('nan' / 'inf' / '-inf' are stored as strings)"""
    if isinstance(x, str):
        return float(x)
    return float(x)


def is_bad(x) -> bool:
    x = fv(x)
    return math.isnan(x) or math.isinf(x)


def cv(x):
    """float -> case value"""
    if isinstance(x, float) and (math.isnan(x) or math.isinf(x)):
        return "nan" if math.isnan(x) else ("inf" if x > 0 else "-inf")
    return x


def coq_val(x) -> str:
    return "Bad" if is_bad(x) else f"(V {q(fv(x))})"


def coq_path(name: str) -> str:
    return lst(s(p) for p in ([] if name == "" else name.split("_")))


def close(a: float, e) -> bool:
    e = float(e)
    return not math.isnan(a) and abs(a - e) <= TOL * max(1.0, abs(e))


# --------------------------------------------------------------------------
# configurations
# --------------------------------------------------------------------------
def all_configs():
    out = [("Unilateral", {})]
    for st in (False, True):
        for sl in (False, True):
            out.append(("Bilateral", {"symT": st, "symL": sl}))
    for mix in (True, False):
        for mode in ("central", "evo", "neither"):
            for sl in (True, False):
                for marg in (True, False):
                    out.append(("Midline", {"use_mixing": mix, "mode": mode, "symL": sl, "marg": marg}))
    out.append(("HPVUnilateral", {}))
    return out


def config_text(case) -> str:
    cls, cfg = case["cls"], case["cfg"]
    if cls == "Bilateral":
        return (f"lnl_spread {'symmetric' if cfg['symL'] else 'asymmetric'} and "
                f"tumor_spread {'symmetric' if cfg['symT'] else 'asymmetric'}")
    if cls == "Midline":
        return f"lnl_spread {'symmetric' if cfg['symL'] else 'asymmetric'} and tumor_spread asymmetric"
    return "-"


def is_d6(case) -> bool:
    cls, cfg = case["cls"], case["cfg"]
    return (cls == "Bilateral" and not cfg["symT"] and not cfg["symL"]) or (cls == "Midline" and not cfg["symL"])


# --------------------------------------------------------------------------
# documented names (get_params order) and positional order, computed from the case only
# --------------------------------------------------------------------------
def _edge_names(g):
    alln = gen.edge_param_names(g)
    tumors = set(gen.tumors_of(g))
    T = []
    for n in alln:
        seg = n.split("_")[0]
        if "to" in seg and seg.split("to")[0] in tumors:
            T.append(n)
    L = [n for n in alln if n not in T]
    return T, L


def _dist_names(case):
    out = []
    for t, d in case["dists"].items():
        if "fam" in d:
            out += [f"{t}_{k}" for k in d["kw"]]
    return out


def _pre(p, names):
    return [f"{p}_{n}" for n in names]


def get_names(case):
    """names in the order of get_params() (what the current code reports)"""
    T, L = _edge_names(case["graph"])
    D = _dist_names(case)
    cls, cfg = case["cls"], case["cfg"]
    if cls == "Unilateral":
        return T + L + D
    if cls == "Bilateral":
        st, sl = cfg["symT"], cfg["symL"]
        if st and sl:
            return T + L + D
        if st:
            return T + _pre("ipsi", L) + _pre("contra", L) + D
        if sl:
            return _pre("ipsi", T) + _pre("contra", T) + L + D
        return _pre("ipsi", T) + _pre("ipsi", L) + _pre("contra", T) + _pre("contra", L) + D
    if cls == "Midline":
        mix, sl = cfg["use_mixing"], cfg["symL"]
        if mix and sl:
            return _pre("ipsi", T) + _pre("contra", T) + ["mixing"] + L + D + ["midext_prob"]
        if mix:
            return _pre("ipsi", T) + _pre("ipsi", L) + _pre("contra", T) + _pre("contra", L) + ["mixing"] + D + ["midext_prob"]
        if sl:
            return _pre("ipsi", T) + _pre("noext_contra", T) + _pre("ext_contra", T) + L + D + ["midext_prob"]
        return (_pre("ipsi", T) + _pre("ipsi", L) + _pre("noext_contra", T) + _pre("ext_contra", T)
                + _pre("contra", L) + D + ["midext_prob"])
    if cls == "HPVUnilateral":
        t0 = gen.tumors_of(case["graph"])[0]
        return _pre("hpv", T) + [f"nohpv_{t0}toII_spread"] + L + D
    raise ValueError(cls)


def set_names(case):
    """names in the order in which positional set_params consumes values (D6: differs from get_names)"""
    T, L = _edge_names(case["graph"])
    D = _dist_names(case)
    cls, cfg = case["cls"], case["cfg"]
    if cls == "Bilateral" and not cfg["symT"] and not cfg["symL"]:
        return _pre("ipsi", T) + _pre("contra", T) + _pre("ipsi", L) + _pre("contra", L) + D
    if cls == "Midline" and not cfg["symL"]:
        if cfg["use_mixing"]:
            return (_pre("ipsi", T) + _pre("contra", T) + ["mixing"] + _pre("ipsi", L) + _pre("contra", L) + D
                    + ["midext_prob"])
        return (_pre("ipsi", T) + _pre("noext_contra", T) + _pre("ext_contra", T) + _pre("ipsi", L)
                + _pre("contra", L) + D + ["midext_prob"])
    return get_names(case)


# --------------------------------------------------------------------------
# implementation side
# --------------------------------------------------------------------------
def build(case, named_subset=True):
    from lymph import models
    g = gen.graph_dict(case["graph"])
    tri = case["graph"]["base"] == 3
    cls, cfg = case["cls"], case["cfg"]
    mt = case["max_time"]
    if cls == "Unilateral":
        m = (models.Unilateral.trinary if tri else models.Unilateral.binary)(g, max_time=mt)
    elif cls == "Bilateral":
        ctor = models.Bilateral.trinary if tri else models.Bilateral.binary
        extra = {}
        if case.get("contra_relist"):
            # the contralateral side gets the SAME graph with the LNLs (and every LNL's connection list) in reverse order;
            # tumour entries stay where they are, so the reported (tumour) parameters keep their order (R6-C11-m1)
            ents = [list(e) for e in case["graph"]["entries"]]
            pos = [k for k, e in enumerate(ents) if e[0] == "lnl"]
            rev = [[e[0], e[1], list(e[2])[::-1]] for e in (ents[k] for k in pos)][::-1]
            for k, e in zip(pos, rev):
                ents[k] = e
            extra["contra_kwargs"] = {"graph_dict": gen.graph_dict({"base": case["graph"]["base"], "entries": ents})}
        m = ctor(g, is_symmetric={"tumor_spread": cfg["symT"], "lnl_spread": cfg["symL"]}, uni_kwargs={"max_time": mt}, **extra)
    elif cls == "Midline":
        ctor = models.Midline.trinary if tri else models.Midline.binary
        m = ctor(g, is_symmetric={"lnl_spread": cfg["symL"]}, use_mixing=cfg["use_mixing"],
                 use_central=cfg["mode"] == "central", use_midext_evo=cfg["mode"] == "evo",
                 marginalize_unknown=cfg["marg"], uni_kwargs={"max_time": mt})
    elif cls == "HPVUnilateral":
        ctor = models.HPVUnilateral.trinary if tri else models.HPVUnilateral.binary
        m = ctor(g, uni_kwargs={"max_time": mt})
    else:
        raise ValueError(cls)
    for t, d in case["dists"].items():
        impl.apply_dist(m, t, d)
    # set_params / get_params must not depend on a declared named_params subset (only set_named_params does):
    # a deterministic third of the models declares a strict subset (the D18 regression: Midline located midext_prob
    # through get_num_dims())
    if named_subset and cls != "HPVUnilateral":
        import hashlib
        import json as _json
        import random as _random
        h = int(hashlib.sha1(_json.dumps(case, sort_keys=True, default=str).encode()).hexdigest()[:8], 16)
        if h % 3 == 0:
            names = list(m.get_params(as_dict=True))
            r = _random.Random(h)
            sub = [n for n in names if r.random() < 0.5][:max(1, len(names) - 1)] or names[:1]
            m.named_params = sub
    return m


def leaves_of(case, m):
    cls = case["cls"]
    if cls == "Unilateral":
        return [("", m)]
    if cls == "Bilateral":
        return [("ipsi", m.ipsi), ("contra", m.contra)]
    if cls == "HPVUnilateral":
        return [("hpv", m.hpv), ("nohpv", m.nohpv)]
    out = [("ext_ipsi", m.ext.ipsi), ("ext_contra", m.ext.contra), ("noext_ipsi", m.noext.ipsi),
           ("noext_contra", m.noext.contra)]
    if m.use_central:
        out += [("central_ipsi", m.central.ipsi), ("central_contra", m.central.contra)]
    if m.marginalize_unknown:
        out += [("unknown_ipsi", m.unknown.ipsi), ("unknown_contra", m.unknown.contra)]
    return out


def flatten_nested(d, pre=""):
    out = []
    for k, v in d.items():
        nk = f"{pre}_{k}" if pre else k
        if isinstance(v, dict):
            out += flatten_nested(v, nk)
        else:
            out.append([nk, float(v)])
    return out


def observe(case, m):
    o = {}
    try:
        o["flat"] = [[k, float(v)] for k, v in m.get_params(as_dict=True).items()]
    except (ValueError, KeyError) as e:
        o["flat"] = None
        o["flat_err"] = impl.err_enum(e)
    try:
        o["nested"] = flatten_nested(m.get_params(as_dict=True, as_flat=False))
    except (ValueError, KeyError):
        o["nested"] = None
    try:
        o["values"] = [float(v) for v in m.get_params(as_dict=False)]
    except (ValueError, KeyError):
        o["values"] = None
    o["leaves"] = [[name, [[k, float(v)] for k, v in leaf.get_params(as_dict=True).items()]]
                   for name, leaf in leaves_of(case, m)]
    if case["cls"] == "Midline":
        o["mixing"] = None if m.mixing_param is None else float(m.mixing_param)
        o["midext"] = float(m.midext_prob)
    return o


def do_call(m, call):
    """-> (raised enum or None, surplus list or None)"""
    a = [fv(x) for x in call["args"]]
    kw = {k: fv(v) for k, v in call["kwargs"].items()}
    try:
        r = getattr(m, call["m"])(*a, **kw)
    except Exception as e:  # noqa: BLE001
        return impl.err_enum(e), None
    return None, [float(x) for x in r]


def impl_run(case):
    m = build(case)
    steps = []
    for call in case["calls"]:
        raised, surplus = do_call(m, call)
        steps.append({"raised": raised, "surplus": surplus, "obs": observe(case, m)})
    return steps


# --------------------------------------------------------------------------
# model side
# --------------------------------------------------------------------------
def coq_dists(case) -> str:
    items = []
    for t, d in case["dists"].items():
        if "frozen" in d:
            items.append(tup(s(t), f"(Frozen (normalize {lst(q(w) for w in d['frozen'])}))"))
        else:
            items.append(tup(s(t), f"(Param {nat(d['fam'])} {lst(tup(s(k), q(v)) for k, v in d['kw'].items())})"))
    return lst(items)


def coq_model(case) -> str:
    g = case["graph"]
    u = (f"(new_uni (force_graph (build_graph {nat(g['base'])} {coq_gdict(g)})) {coq_dists(case)} "
         f"{nat(case['max_time'])})")
    cls, cfg = case["cls"], case["cfg"]
    if cls == "Unilateral":
        return f"(MUni {u})"
    if cls == "Bilateral":
        return f"(MBi (new_bilateral {u} {boolean(cfg['symT'])} {boolean(cfg['symL'])}))"
    if cls == "Midline":
        return (f"(MMid (new_midline {u} {boolean(cfg['use_mixing'])} {boolean(cfg['mode'] == 'central')} "
                f"{boolean(cfg['mode'] == 'evo')} {boolean(cfg['marg'])} {boolean(cfg['symL'])}))")
    return f"(MHpv (new_hpv {u}))"


def coq_call(call) -> str:
    a = lst(coq_val(x) for x in call["args"])
    kw = lst(tup(coq_path(k), coq_val(v)) for k, v in call["kwargs"].items())
    return tup(SETTERS[call["m"]], a, kw)


def coq_expr(case) -> str:
    return f"run_calls {coq_model(case)} {lst(coq_call(c) for c in case['calls'])}"


def _items(v):
    """Coq [(path, (n, d))] -> [[name, Fraction]]"""
    from fractions import Fraction
    return [["_".join(p), Fraction(nd[0], nd[1])] for p, nd in v]


def _opt(v):
    if v is None:
        return None
    assert isinstance(v, tuple) and v[0] == "Some", v
    return v[1]


def model_steps(val):
    from fractions import Fraction
    steps = []
    for res, om in val:
        flat, nested, leaves, (mixing, midext) = om
        r = _opt(res)
        st = {"raised": r is None,
              "surplus": None if r is None else [None if _opt(x) is None else Fraction(*_opt(x)) for x in r],
              "flat": None if _opt(flat) is None else _items(_opt(flat)),
              "nested": None if _opt(nested) is None else _items(_opt(nested)),
              "leaves": [["_".join(p), _items(it)] for p, it in leaves],
              "mixing": None if _opt(mixing) is None else Fraction(*_opt(mixing)),
              "midext": Fraction(*midext)}
        steps.append(st)
    return steps


def cmp_items(what, act, exp):
    if act is None or exp is None:
        if act is None and exp is None:
            return None
        return {"observable": what, "actual": "raised" if act is None else act,
                "expected": "raises" if exp is None else [[k, float(v)] for k, v in exp]}
    if [k for k, _ in act] != [k for k, _ in exp]:
        return {"observable": what + " (names / order)", "actual": [k for k, _ in act], "expected": [k for k, _ in exp]}
    for (k, a), (_, e) in zip(act, exp):
        if not close(a, e):
            return {"observable": what, "name": k, "actual": a, "expected": float(e)}
    return None


def compare(case, steps, val):
    """-> mismatch dict or None"""
    ms = model_steps(val)
    if len(ms) != len(steps):
        raise HarnessError("model returned a different number of steps")
    for k, (st, mo) in enumerate(zip(steps, ms)):
        call = case["calls"][k]
        where = {"step": k, "call": call["m"], "style": call.get("style", "?")}
        if (st["raised"] is not None) != mo["raised"]:
            return {**where, "observable": f"{call['m']} raises", "actual": st["raised"] or "returned",
                    "expected": "ValueError" if mo["raised"] else "returns"}
        if st["raised"] is not None and st["raised"] != "ValueError":
            return {**where, "observable": f"{call['m']} raises", "actual": st["raised"], "expected": "ValueError"}
        if st["raised"] is None:
            sa, se = st["surplus"], mo["surplus"]
            ok = len(sa) == len(se) and all((e is None and (math.isnan(a) or math.isinf(a))) or
                                             (e is not None and close(a, e)) for a, e in zip(sa, se))
            if not ok:
                return {**where, "observable": f"{call['m']} returned surplus", "actual": sa,
                        "expected": [None if e is None else float(e) for e in se]}
        o = st["obs"]
        for what, act, exp in (("get_params(as_dict=True)", o["flat"], mo["flat"]),
                               ("get_params(as_flat=False)", o["nested"], mo["nested"])):
            d = cmp_items(what, act, exp)
            if d:
                return {**where, **d}
        if [n for n, _ in o["leaves"]] != [n for n, _ in mo["leaves"]]:
            return {**where, "observable": "sub-models", "actual": [n for n, _ in o["leaves"]],
                    "expected": [n for n, _ in mo["leaves"]]}
        for (n, act), (_, exp) in zip(o["leaves"], mo["leaves"]):
            d = cmp_items(f"{n}.get_params()" if n else "get_params()", act, exp)
            if d:
                return {**where, **d}
        if case["cls"] == "Midline":
            if (o["mixing"] is None) != (mo["mixing"] is None) or (o["mixing"] is not None and not close(o["mixing"], mo["mixing"])):
                return {**where, "observable": "mixing_param", "actual": o["mixing"],
                        "expected": None if mo["mixing"] is None else float(mo["mixing"])}
            if not close(o["midext"], mo["midext"]):
                return {**where, "observable": "midext_prob", "actual": o["midext"], "expected": float(mo["midext"])}
    return None


def corr_failing(ctx, cases, tag):
    """-> list of mismatch-or-None, one per case"""
    obs = []
    for c in cases:
        try:
            obs.append(("ok", impl_run(c)))
        except Exception as e:  # noqa: BLE001
            obs.append(("err", impl.err_enum(e), repr(e)[:300]))
    vals = run_coq_cases(ctx.work / tag, [coq_expr(c) for c in cases], IMPORTS, shard=40 if len(cases) < 2000 else 120)
    out = []
    for c, o, v in zip(cases, obs, vals):
        if o[0] == "err":
            out.append({"observable": "building the model / observing it", "actual": f"raised {o[1]}: {o[2]}",
                        "expected": "no exception", "step": -1, "call": "constructor", "style": "-"})
        else:
            out.append(compare(c, o[1], v))
    return out


# --------------------------------------------------------------------------
# relations evaluated on the implementation alone
# --------------------------------------------------------------------------
def _vec_close(a, e):
    return a is not None and len(a) == len(e) and all(close(x, y) for x, y in zip(a, e))


def relations(case):
    """-> list of (signature, detail) for every relation of the property that fails on /repo"""
    rel = case.get("rel")
    fails = []
    cls = case["cls"]
    base_sig = {"class": cls, "config": config_text(case), "call": "set_params"}

    def fail(style, relation, detail):
        sig = dict(base_sig, style=style, relation=relation)
        fails.append((sig, detail))

    try:
        m = build(case)
    except Exception as e:  # noqa: BLE001
        fail("-", "constructor raises", {"actual": repr(e)[:200]})
        return fails
    gn = get_names(case)
    # names: documented, each once, nested flattens to flat, values() consistent
    try:
        flat0 = m.get_params(as_dict=True)
        names0 = list(flat0.keys())
        if names0 != gn:
            fail("-", "names(get_params) != documented names", {"actual": names0, "expected": gn})
        if len(set(names0)) != len(names0):
            fail("-", "a parameter is listed twice", {"actual": names0})
        nested0 = flatten_nested(m.get_params(as_dict=True, as_flat=False))
        if [k for k, _ in nested0] != names0:
            fail("-", "nested form does not flatten to the flat form", {"actual": [k for k, _ in nested0], "expected": names0})
    except Exception as e:  # noqa: BLE001
        fail("-", "get_params raises on a fresh model", {"actual": repr(e)[:200]})
        return fails
    if not rel:
        return fails
    # run the history up to (excluding) the tested call
    for call in case["calls"][:-1]:
        do_call(m, call)
    call = case["calls"][-1]
    try:
        before = [float(v) for v in m.get_params(as_dict=False)]
    except Exception:  # noqa: BLE001
        return fails
    if len(before) != len(gn):
        return fails
    kind = rel["kind"]
    style = call.get("style", kind)

    def after_call(mm, c):
        raised, surplus = do_call(mm, c)
        try:
            return raised, surplus, [float(v) for v in mm.get_params(as_dict=False)]
        except Exception as e:  # noqa: BLE001
            return raised, surplus, None

    raised, surplus, after = after_call(m, call)
    detail = {"call": call, "before": dict(zip(gn, before)), "after": None if after is None else dict(zip(gn, after)),
              "raised": raised, "surplus": surplus}
    if raised is not None:
        fail(style, "set_params raises on valid values", detail)
        return fails
    if kind in ("positional", "partial", "surplus", "kw_over_pos"):
        v = [fv(x) for x in call["args"]]
        n = len(gn)
        over = {k: fv(x) for k, x in call["kwargs"].items()}

        def expected(order):
            vals = dict(zip(gn, before))
            usable = v[:n]
            if cls == "Midline" and len(v) < n:
                pass   # midext_prob is taken from position n-1 only
            for nm, x in zip(order, usable):
                vals[nm] = x
            vals.update(over)
            return [vals[nm] for nm in gn]

        exp = expected(gn)
        exp_sur = v[n:]
        if not _vec_close(after, exp):
            d6exp = expected(set_names(case))
            detail = dict(detail, expected=dict(zip(gn, exp)))
            if cls == "HPVUnilateral":
                fail(style, "get(set_positional(v)) != v", detail)
            elif is_d6(case) and _vec_close(after, d6exp):
                fail("positional", D6_RELATION, detail)
            else:
                fail(style, "get(set_positional(v)) != v", detail)
        elif not _vec_close(surplus, exp_sur):
            fail(style, "surplus != values beyond the number of parameters", dict(detail, expected_surplus=exp_sur))
    elif kind in ("keyword", "identity", "global", "unknown"):
        kw = {k: fv(x) for k, x in call["kwargs"].items()}
        vals = dict(zip(gn, before))
        glob = rel.get("global", {})
        for gname, gval in glob.items():
            for nm in gn:
                if nm.split("_")[-1] == gname and nm not in ("midext_prob",):
                    vals[nm] = fv(gval)
        for k, x in kw.items():
            if k in vals:
                vals[k] = x
        exp = [vals[nm] for nm in gn]
        if not _vec_close(after, exp):
            relation = {"keyword": "get(set_keyword(names, v)) != v", "identity": "set_params(**get_params()) changes the parameters",
                        "global": "specific name does not override the global one / global name not applied",
                        "unknown": "unknown names are not ignored"}[kind]
            fail(style, relation, dict(detail, expected=dict(zip(gn, exp))))
        elif surplus:
            fail(style, "keyword call returns surplus", detail)
    return fails


# --------------------------------------------------------------------------
# generation
# --------------------------------------------------------------------------
def valid_value(rng, name):
    last = name.split("_")[-1]
    if last == "a":
        return rng.randint(0, 8) / 4.0
    if last == "b":
        return rng.randint(1, 8) / 4.0
    return gen.gen_value(rng)


def gen_graph_for(rng, cls, base, max_lnls):
    while True:
        g = gen.gen_graph(rng, max_lnls=max_lnls, base=base)
        if cls != "HPVUnilateral":
            return g
        if "II" not in gen.lnls_of(g):
            continue
        t0 = gen.tumors_of(g)[0]
        for e in g["entries"]:
            if e[1] == t0 and "II" not in e[2]:
                e[2].append("II")
        return g


def gen_dists(rng, max_time, p_none=0.4):
    if rng.random() < p_none:
        return {}
    ds = {}
    if rng.random() < 0.25:            # every T-stage parametric with the SAME family: equal keyword names across T-stages
        fam = rng.choice([0, 0, 1])
        for t in rng.sample(gen.TSTAGES, len(gen.TSTAGES)):
            ds[t] = ({"fam": 0, "kw": {"p": gen.gen_value(rng)}} if fam == 0 else
                     {"fam": 1, "kw": {"a": rng.randint(0, 8) / 4.0, "b": rng.randint(1, 8) / 4.0}})
        return ds
    for t in rng.sample(gen.TSTAGES, rng.choice([1, 2, 2])):
        r = rng.random()
        if r < 0.3:
            w = [rng.choice([0, 1, 2, 3]) for _ in range(max_time + 1)]
            if sum(w) == 0:
                w[0] = 1
            ds[t] = {"frozen": w}
        elif r < 0.75:
            ds[t] = {"fam": 0, "kw": {"p": gen.gen_value(rng)}}
        else:
            ds[t] = {"fam": 1, "kw": {"a": rng.randint(0, 8) / 4.0, "b": rng.randint(1, 8) / 4.0}}
    return ds


BAD_VALUES = [float("nan"), float("inf"), -0.25, 1.5, 2.0, -1.0, float("-inf")]
UNKNOWN = ["AtoB_spread", "foo", "ipsi_foo_spread", "XtoY", "contra_QtoR_micro", "nothing_p", "ext_foo", "spreads",
           "TtoII", "late_q", "ipsi", "hpv_foo", "central_TtoII_spread", "unknown_early_p"]


def gen_call(rng, case, kind):
    """one setter call of the given kind; returns (call, rel or None)"""
    gn = get_names(case)
    n = len(gn)
    tri = case["graph"]["base"] == 3
    pos_vals = lambda order: [valid_value(rng, nm) for nm in order]  # noqa: E731
    if kind == "positional":
        return {"m": "set_params", "args": pos_vals(set_names(case)), "kwargs": {}, "style": "positional"}, {"kind": "positional"}
    if kind == "partial":
        k = rng.randint(0, max(0, n - 1))
        return {"m": "set_params", "args": pos_vals(set_names(case))[:k], "kwargs": {}, "style": "positional"}, {"kind": "partial"}
    if kind == "surplus":
        extra = [gen.gen_value(rng) for _ in range(rng.randint(1, 3))]
        return ({"m": "set_params", "args": pos_vals(set_names(case)) + extra, "kwargs": {}, "style": "positional"},
                {"kind": "surplus"})
    if kind == "keyword":
        names = gn[:]
        if rng.random() < 0.5:
            rng.shuffle(names)
        return ({"m": "set_params", "args": [], "kwargs": {nm: valid_value(rng, nm) for nm in names}, "style": "keyword"},
                {"kind": "keyword"})
    if kind == "kw_subset":
        names = [nm for nm in gn if rng.random() < 0.5]
        return ({"m": "set_params", "args": [], "kwargs": {nm: valid_value(rng, nm) for nm in names}, "style": "keyword"},
                {"kind": "keyword"})
    if kind == "kw_over_pos":
        names = [nm for nm in gn if rng.random() < 0.4] or gn[:1]
        return ({"m": "set_params", "args": pos_vals(set_names(case)), "kwargs": {nm: valid_value(rng, nm) for nm in names},
                 "style": "mixed"}, {"kind": "kw_over_pos"})
    if kind == "global" and tri and rng.random() < 0.35:
        # a two-kind arc: one kind through the global name, the other named specifically for that arc (and nothing else)
        two = sorted({nm.rsplit("_", 1)[0] for nm in gn if nm.endswith("_micro")} & {nm.rsplit("_", 1)[0] for nm in gn if nm.endswith("_spread")})
        if two:
            arc = rng.choice(two)
            g1, other = rng.choice([("spread", "micro"), ("micro", "spread")])
            glob = {g1: valid_value(rng, "x_" + g1)}
            kw = dict(glob)
            kw[f"{arc}_{other}"] = valid_value(rng, f"{arc}_{other}")
            items = list(kw.items())
            rng.shuffle(items)
            return ({"m": "set_params", "args": [], "kwargs": dict(items), "style": "global"}, {"kind": "global", "global": glob})
    if kind == "global":
        globs = ["spread"] + (["growth", "micro"] if tri else [])
        for t, d in case["dists"].items():
            if "fam" in d:
                globs += list(d["kw"])
        chosen = rng.sample(sorted(set(globs)), rng.randint(1, min(2, len(set(globs)))))
        glob = {gname: valid_value(rng, "x_" + gname) for gname in chosen}
        kw = dict(glob)
        if rng.random() < 0.5:      # specific names of the globally named kinds (the specific one must win) ...
            cand = [nm for nm in gn if nm.split("_")[-1] in glob and nm != "midext_prob"]
        else:                       # ... or of any kind (an arc's 'micro' named specifically while its 'spread' comes from the global)
            cand = [nm for nm in gn if nm != "midext_prob"]
        for nm in rng.sample(cand, min(len(cand), rng.randint(0, 2))):
            kw[nm] = valid_value(rng, nm)
        items = list(kw.items())
        rng.shuffle(items)
        return ({"m": "set_params", "args": [], "kwargs": dict(items), "style": "global"}, {"kind": "global", "global": glob})
    if kind == "unknown":
        known = set(gn)
        kw = {nm: valid_value(rng, nm) for nm in gn if rng.random() < 0.4}
        T, L = _edge_names(case["graph"])
        reserved = set(T + L + _dist_names(case))
        for u in rng.sample(UNKNOWN, rng.randint(1, 4)):
            # a name is unknown if it is no parameter name, no global name, and does not become one
            # after stripping side prefixes
            core = u
            for p in ("ipsi_", "contra_", "ext_", "noext_", "hpv_", "nohpv_", "central_", "unknown_", "HPV_", "noHPV_"):
                while core.startswith(p):
                    core = core[len(p):]
            if u in known or core in reserved or core in ("spread", "growth", "micro", "p", "a", "b", "mixing", "prob"):
                continue
            kw[u] = gen.gen_value(rng)
        items = list(kw.items())
        rng.shuffle(items)
        return ({"m": "set_params", "args": [], "kwargs": dict(items), "style": "unknown"}, {"kind": "unknown"})
    if kind == "side_global":
        # 'ipsi_spread', 'contra_spread', 'ipsi_growth' ...: only the correspondence judges these
        pres = {"Unilateral": [""], "Bilateral": ["ipsi_", "contra_", ""], "Midline": ["ipsi_", "contra_", "noext_contra_", "ext_contra_", "ext_", "noext_", ""],
                "HPVUnilateral": ["hpv_", "nohpv_", "HPV_", "noHPV_", ""]}[case["cls"]]
        kw = {}
        for _ in range(rng.randint(1, 3)):
            kw[rng.choice(pres) + rng.choice(["spread", "growth", "micro", "p", "a", "b", "mixing"])] = gen.gen_value(rng)
        for nm in gn:
            if rng.random() < 0.2:
                kw[nm] = valid_value(rng, nm)
        a = [gen.gen_value(rng) for _ in range(rng.randint(0, n))] if rng.random() < 0.3 else []
        return {"m": "set_params", "args": a, "kwargs": kw, "style": "global"}, None
    if kind == "malformed":
        a = pos_vals(set_names(case))[:rng.randint(0, n + 1)] if rng.random() < 0.6 else []
        kw = {nm: valid_value(rng, nm) for nm in gn if rng.random() < 0.3}
        for _ in range(rng.randint(1, 2)):
            if a and rng.random() < 0.5:
                a[rng.randrange(len(a))] = rng.choice(BAD_VALUES)
            else:
                kw[rng.choice(gn + ["spread"])] = rng.choice(BAD_VALUES)
        return {"m": rng.choice(["set_params"] * 3 + ["set_spread_params"]), "args": [cv(x) for x in a],
                "kwargs": {k: cv(x) for k, x in kw.items()}, "style": "malformed"}, None
    if kind == "halfway":
        # one invalid value in the middle of an otherwise valid full call: the setter raises half-way and
        # leaves a partial update behind (sub-models out of sync)
        sn = set_names(case)
        a = pos_vals(sn)
        j = rng.randrange(len(a))
        T, L = _edge_names(case["graph"])
        lnl_pos = [k for k, nm in enumerate(sn) if any(nm == l or nm.endswith("_" + l) for l in L)]
        later = [k for k in lnl_pos if k - 1 in lnl_pos]       # not the first LNL parameter of its block
        if later and rng.random() < 0.7:
            j = rng.choice(later)
        if rng.random() < 0.6:
            a[j] = rng.choice(BAD_VALUES)
            return {"m": rng.choice(["set_params", "set_params", "set_spread_params", "set_lnl_spread_params"]),
                    "args": [cv(x) for x in a], "kwargs": {}, "style": "malformed"}, None
        kw = dict(zip(gn, [valid_value(rng, nm) for nm in gn]))
        kw[sn[j]] = rng.choice(BAD_VALUES)
        return {"m": "set_params", "args": [], "kwargs": {k: cv(x) for k, x in kw.items()}, "style": "malformed"}, None
    if kind == "sub_setter":
        meth = rng.choice(["set_tumor_spread_params", "set_lnl_spread_params", "set_spread_params", "set_distribution_params"])
        a = [gen.gen_value(rng) if rng.random() < 0.9 else rng.randint(1, 4) / 2.0 for _ in range(rng.randint(0, n + 2))] \
            if rng.random() < 0.7 else []
        kw = {nm: valid_value(rng, nm) for nm in gn if rng.random() < 0.3}
        if rng.random() < 0.3:
            kw[rng.choice(["spread", "ipsi_spread", "contra_spread", "growth", "micro", "p", "mixing", "midext_prob"])] = gen.gen_value(rng)
        return {"m": meth, "args": a, "kwargs": kw, "style": "sub-setter"}, None
    raise ValueError(kind)


KINDS = ["positional", "positional", "keyword", "keyword", "kw_subset", "kw_over_pos", "global", "global", "unknown", "partial",
         "surplus", "side_global", "malformed", "halfway", "halfway", "sub_setter", "identity"]


def gen_case(rng, tier, cls=None, cfg=None, kind=None):
    if cls is None:
        r = rng.random()
        cfgs = all_configs()
        if r < 0.2:
            cls, cfg = cfgs[0]
        elif r < 0.5:
            cls, cfg = rng.choice(cfgs[1:5])
        elif r < 0.92:
            cls, cfg = rng.choice(cfgs[5:-1])
        else:
            cls, cfg = cfgs[-1]
    base = rng.choice([2, 2, 3])
    g = gen_graph_for(rng, cls, base, 3 if base == 2 else 2)
    mt = rng.randint(1, 4)
    case = {"cls": cls, "cfg": cfg, "graph": g, "max_time": mt, "dists": gen_dists(rng, mt), "calls": []}
    kind = kind or rng.choice(KINDS)
    # an initial keyword call puts the object in a non-default state
    if rng.random() < 0.75:
        init, _ = gen_call(rng, case, "keyword")
        init["style"] = "init"
        case["calls"].append(init)
        if rng.random() < 0.2:
            extra, _ = gen_call(rng, case, rng.choice(["sub_setter", "malformed", "positional", "side_global"]))
            case["calls"].append(extra)
    if kind == "identity":
        case["calls"].append({"m": "set_params", "args": [], "kwargs": "own", "style": "identity"})
        case["rel"] = {"kind": "identity"}
    else:
        call, rel = gen_call(rng, case, kind)
        case["calls"].append(call)
        if rel:
            case["rel"] = rel
    if kind in ("malformed", "halfway") and rng.random() < 0.6:
        # what happens AFTER a call that raised (get_params, another valid call)
        follow, _ = gen_call(rng, case, rng.choice(["positional", "keyword", "kw_subset"]))
        follow["style"] = "after-raise"
        case["calls"].append(follow)
    case["kind"] = kind
    resolve_own(case)
    return case


def resolve_own(case):
    """'kwargs': 'own' = set_params(**get_params()): the values are those the documented semantics put
    there, obtained from the implementation's own get_params at that point of the history."""
    if not any(c["kwargs"] == "own" for c in case["calls"]):
        return
    m = build(case)
    for c in case["calls"]:
        if c["kwargs"] == "own":
            try:
                c["kwargs"] = {k: float(v) for k, v in m.get_params(as_dict=True).items()}
            except Exception:  # noqa: BLE001
                c["kwargs"] = {}
        do_call(m, c)


def boundary_cases(rng, base):
    """thorough: the 2-LNL graph, every configuration, 0/1 at one or two positions (rest 1/2),
    positional and keyword"""
    g = {"base": base, "entries": [["tumor", "T", ["II", "III"]], ["lnl", "II", ["III"]], ["lnl", "III", []]]}
    out = []
    for cls, cfg in all_configs():
        proto = {"cls": cls, "cfg": cfg, "graph": g, "max_time": 2,
                 "dists": {"early": {"fam": 0, "kw": {"p": 0.25}}, "late": {"frozen": [1, 1, 2]}}, "calls": []}
        sn, gn = set_names(proto), get_names(proto)
        n = len(gn)
        init = {"m": "set_params", "args": [], "kwargs": {nm: 0.25 + 0.5 * ((i * 7) % 5) / 8.0 for i, nm in enumerate(gn)},
                "style": "init"}
        placements = [((i,), (b,)) for i in range(n) for b in (0.0, 1.0)]
        placements += [((i, j), (b, c)) for i, j in itertools.combinations(range(n), 2) for b in (0.0, 1.0) for c in (0.0, 1.0)]
        for pos, bs in placements:
            v = [0.5] * n
            for i, b in zip(pos, bs):
                v[i] = b
            c1 = copy.deepcopy(proto)
            c1["calls"] = [copy.deepcopy(init), {"m": "set_params", "args": v, "kwargs": {}, "style": "positional"}]
            c1["rel"] = {"kind": "positional"}
            c1["kind"] = "boundary-positional"
            c2 = copy.deepcopy(proto)
            c2["calls"] = [copy.deepcopy(init), {"m": "set_params", "args": [], "kwargs": dict(zip(gn, v)), "style": "keyword"}]
            c2["rel"] = {"kind": "keyword"}
            c2["kind"] = "boundary-keyword"
            out += [c1, c2]
    return out


# --------------------------------------------------------------------------
# shrinking
# --------------------------------------------------------------------------
def candidates(case):
    out = []
    calls = case["calls"]
    for k in range(len(calls) - (1 if case.get("rel") else 0)):
        if len(calls) < 2:
            break
        c = copy.deepcopy(case)
        del c["calls"][k]
        out.append(c)
    if case["dists"]:
        for t in list(case["dists"]):
            c = copy.deepcopy(case)
            del c["dists"][t]
            for cl in c["calls"]:
                cl["kwargs"] = {k: v for k, v in cl["kwargs"].items() if not k.split("_")[-2:-1] == [t]}
            if c.get("rel", {}).get("kind") not in ("positional", "partial", "surplus", "kw_over_pos"):
                out.append(c)
    for k, cl in enumerate(calls):
        for name in list(cl["kwargs"]):
            c = copy.deepcopy(case)
            del c["calls"][k]["kwargs"][name]
            if c.get("rel", {}).get("kind") != "identity" or k < len(calls) - 1:
                out.append(c)
    for k, cl in enumerate(calls):
        for i, x in enumerate(cl["args"]):
            if not is_bad(x) and fv(x) not in (0.5, 0.0, 1.0):
                c = copy.deepcopy(case)
                c["calls"][k]["args"][i] = 0.5
                out.append(c)
        for name, x in cl["kwargs"].items():
            if not is_bad(x) and fv(x) not in (0.5, 0.0, 1.0) and name.split("_")[-1] not in ("a", "b"):
                c = copy.deepcopy(case)
                c["calls"][k]["kwargs"][name] = 0.5
                out.append(c)
    return out


def signature_of(case, mm):
    return {"class": case["cls"], "config": config_text(case), "call": "correspondence:" + str(mm.get("call")),
            "style": mm.get("style"), "observable": str(mm.get("observable"))}


def nontrivial(case):
    vals = [fv(x) for c in case["calls"] for x in list(c["args"]) + list(c["kwargs"].values())]
    arcs = sum(len(cs) for k, n, cs in case["graph"]["entries"])
    return any(0.0 < x < 1.0 for x in vals if not is_bad(x)) and arcs >= 2


def report_corr(ctx, case, mm):
    def still(cs):
        return [m is not None for m in corr_failing(ctx, cs, "shrink")]
    case = {k: v for k, v in case.items() if k != "rel"}     # the correspondence does not need the relation
    small = shrink(ctx, case, candidates, still, budget_s=25.0)
    mm2 = corr_failing(ctx, [small], "final")[0] or mm
    if mm2 is mm:
        small = case
    ctx.violation(f"{mm2.get('observable')}: implementation differs from the Coq model of the parameter plumbing",
                  {"case": small, "mismatch": mm2, "names": get_names(small),
                   "call": f"{small['cls']}(graph, {small['cfg']}); " + "; ".join(
                       f"{c['m']}(*{c['args']}, **{c['kwargs']})" for c in small["calls"]),
                   "broken": "correspondence Params.run_calls vs /repo (C10 theorems are about this model)"},
                  signature_of(small, mm2))


def report_rel(ctx, case, sig, detail):
    def still(cs):
        out = []
        for c in cs:
            try:
                out.append(any(sg == sig for sg, _ in relations(c)))
            except Exception:  # noqa: BLE001
                out.append(False)
        return out
    small = shrink(ctx, case, candidates, still, budget_s=8.0)
    det = [d for sg, d in relations(small) if sg == sig]
    ctx.violation(f"{sig['relation']} ({sig['class']}, {sig['config']}, {sig['style']})",
                  {"case": small, "detail": det[0] if det else detail, "names": get_names(small),
                   "call": f"{small['cls']}(graph, {small['cfg']}); " + "; ".join(
                       f"{c['m']}(*{c['args']}, **{c['kwargs']})" for c in small["calls"]),
                   "broken": "C10 relation evaluated on /repo"}, sig)


# --------------------------------------------------------------------------
def run(ctx: Ctx, a_ok: bool):
    from ..internals import params_diagnostics
    try:
        params_diagnostics(ctx)
    except Exception as e:  # noqa: BLE001  (diagnostics never fail a check)
        ctx.extra.setdefault('internal_diagnostics', {})['error'] = repr(e)[:300]
    ctx.cone = ["Params.edge_set_params/edge_get_params", "Params.unflatten_and_split/obj_kwargs (set_params_for)",
                "Params.dist_set_params / set_dists_for", "Params.flatten / kw_update (nested dicts)",
                "Params.u_*/b_*/m_*/h_* get and set methods", "Graph.build_graph (edge order)", "Dist.fam_weights (validity)"]
    ctx.rule = ("model class x configuration (Unilateral; Bilateral 4 symmetry settings; Midline use_mixing x "
                "{central, midext_evo, neither} x lnl symmetry x marginalize_unknown; HPVUnilateral) x random graph "
                "(1-3 LNLs, binary/trinary) x frozen/parametric distributions x a history of 1-3 setter calls "
                "(positional, keyword, subset, mixed, global, side-global, unknown names, partial, surplus, identity, "
                "malformed values, sub-setters); values from {0,1} U k/16 U short dyadics; non-trivial iff some value "
                "lies strictly inside (0,1) and the graph has >= 2 arcs")
    rng = ctx.rng
    n = 640 if ctx.tier == "quick" else 3000
    cases = []
    cfgs = all_configs()
    for i in range(n):
        if i < 2 * len(cfgs):          # every configuration at least twice
            cls, cfg = cfgs[i % len(cfgs)]
            cases.append(gen_case(rng, ctx.tier, cls, cfg))
        else:
            cases.append(gen_case(rng, ctx.tier))
    if ctx.tier == "thorough":
        b = boundary_cases(rng, 2) + boundary_cases(rng, 3)
        cases += b
        ctx.exhaustive = True
        ctx.extra["exhaustive_space"] = (f"{len(b)} cases: 2-LNL graph (binary and trinary), all 30 configurations, every "
                                         "placement of 0/1 at one or two positions, positional and keyword")
    for c in cases:
        ctx.count(c, nontrivial(c), f"{c['cls']}-{c['kind']}")
        ctx.bump("base3" if c["graph"]["base"] == 3 else "base2")
        ctx.bump("boundary-values", sum(1 for cl in c["calls"] for x in list(cl["args"]) + list(cl["kwargs"].values())
                                        if not is_bad(x) and fv(x) in (0.0, 1.0)))
    # (B) correspondence
    mms = corr_failing(ctx, cases, "main")
    seen = []
    for c, mm in zip(cases, mms):
        if mm is None:
            continue
        sig = signature_of(c, mm)
        key = (sig["class"], sig["call"], sig["observable"])
        if key in seen or len(seen) >= 2:
            continue
        seen.append(key)
        report_corr(ctx, c, mm)
    ctx.extra["correspondence_mismatches"] = sum(1 for m in mms if m is not None)
    # (C) relations on the implementation alone
    seen_rel = []
    nrel = 0
    for c in cases:
        try:
            fs = relations(c)
        except Exception as e:  # noqa: BLE001
            fs = [({"class": c["cls"], "config": config_text(c), "call": "set_params", "style": "-",
                    "relation": "evaluating the relation raised " + impl.err_enum(e)}, {"error": repr(e)[:300]})]
        for sig, detail in fs:
            nrel += 1
            key = json.dumps(sig, sort_keys=True)
            if key in seen_rel or len(seen_rel) >= 4:
                continue
            seen_rel.append(key)
            report_rel(ctx, c, sig, detail)
    ctx.extra["relation_failures"] = nrel


def replay(ctx: Ctx, path: str) -> int:
    data = json.loads(open(path).read())
    case = data["case"]
    mm = corr_failing(ctx, [case], "replay")[0]
    fs = relations(case)
    want = data.get("signature")
    hit = [(sg, d) for sg, d in fs if want is None or sg == want] or fs
    if mm is not None:
        print("REPRODUCED (correspondence)", json.dumps(jsonable(mm), default=str))
        return 1
    if hit:
        print("REPRODUCED (relation)", json.dumps(jsonable(hit[0]), default=str))
        return 1
    print("not reproduced")
    return 0
