"""C15: results do not depend on names or on listing order.

Metamorphic relations on the IMPLEMENTATION (this is the search for a failing input): every case is built twice,
as given and transformed by a random combination of
  (a) the graph dictionary's keys listed in another order,
  (b) every node's connection list in another order,
  (c) LNL / tumour / modality names replaced through a random bijection (onto fresh names, or a permutation of
      the existing ones) -- parameter names, table columns, diagnoses and involvement patterns renamed with them,
  (d) the modalities defined in another order,
  (e) the table's columns in another order,
  (f) Bilateral only: ipsi- and contralateral side exchanged, together with their parameters, the table's side
      labels and the sides of the diagnosis / involvement,
and the two models must agree: `likelihood()` identical, `state_dist(t)` the same distribution with the state
labels permuted accordingly (transposed under the side swap), `risk(involvement, given_diagnosis)` identical.

Coq tie: the theorems of properties/C15.v are about the Spec (`trans_spec`, `evo_spec`, `prior_spec`,
`findings_prob`, `patient_lik_spec`, `risk_spec`, `bi_joint_spec`), which C05/C07/C01/C02/C03 identify with what
the code computes.  For a sub-sample of unilateral cases the Spec is evaluated on the original and on the
transformed case (`patient_lik_spec`, `prior_spec` through `relist`) and compared exactly, and with the
implementation's likelihood.
"""
from __future__ import annotations

import copy
import json
import math
import random

import numpy as np

from .. import gen, impl
from ..core import Ctx, fracs, run_coq_cases, s, lst, nat
from ..coqterms import coq_graph, coq_patient, coq_uni
from ..numcases import IMPORTS_UNI, gen_uni_case, tmap
from .c02 import gen_diag, gen_pattern
from .c04 import gen_flags, gen_mpatients

IMPORTS = IMPORTS_UNI + " UniStatements Models Bilateral Invariance"

RESERVED = {"ipsi", "contra", "ext", "noext", "mixing", "midext", "spread", "micro", "growth", "patient", "tumor",
            "early", "late", "central", "unknown", "p", "a", "b"}
# fresh names: no "_", no substring "to", not reserved, disjoint from gen.LNL_NAMES / TUMOR_NAMES / MOD_NAMES
FRESH_NODES = ["A", "B", "C", "D", "E", "F", "Va", "Vb", "N1", "N2", "N3", "K7", "Lx", "Ly", "IIa", "IIb", "VII", "X", "Z9"]
FRESH_MODS = ["US", "FNA", "Xray", "Sono", "Q1", "Q2", "M3", "pCT", "dMRI"]
KINDS = ("spread", "micro", "growth")


# --------------------------------------------------------------------------
# case generation
# --------------------------------------------------------------------------
def _names_of(m, dists):
    return [n for n in m.get_params() if n.split("_")[0] not in dists]


def gen_base(rng, tier):
    cls = rng.choice(["uni", "uni", "bi", "bi", "ml"])
    if cls == "uni":
        c = gen_uni_case(rng, tier, min_mods=1, max_pat=4)
        c["cls"] = "uni"
        if len(c["mods"]) >= 2 and rng.random() < 0.3 and c["mods"][0][0] in c["table_mods"]:
            # the model's FIRST modality is absent from the table (its all-unknown block sits at that modality's position,
            # wherever the listing puts it)
            first = c["mods"][0][0]
            c["table_mods"] = [t for t in c["table_mods"] if t != first]
            for pt in c["patients"]:
                pt["find"].pop(first, None)
        lnls = gen.lnls_of(c["graph"])
        mods = [m[0] for m in c["mods"]]
        c["mode"] = "BN" if (c["graph"]["base"] == 2 and rng.random() < 0.2) else "HMM"
        c["diag"] = gen_diag(rng, mods, lnls)
        c["inv"] = gen_pattern(rng, lnls, c["graph"]["base"])
    else:
        base = rng.choice([2, 2, 3])
        g = gen.gen_graph(rng, max_lnls=2, base=base)
        lnls = gen.lnls_of(g)
        mt = rng.randint(0, 3)
        c = {"cls": cls, "graph": g, "mods": gen.gen_modalities(rng, 1, 2), "max_time": mt,
             "dists": gen.gen_dists(rng, mt), "mode": "HMM"}
        mods = [m[0] for m in c["mods"]]
        c["table_mods"] = list(mods)
        if cls == "bi":
            c["sym"] = {"tumor_spread": rng.random() < 0.4, "lnl_spread": rng.random() < 0.5}
            c["patients"] = [gen.gen_patient(rng, mods, lnls, ("ipsi", "contra")) for _ in range(rng.randint(0, 4))]
            if base == 2 and rng.random() < 0.15:
                c["mode"] = "BN"
            m = impl.build_bilateral(c)
        else:
            c["flags"] = gen_flags(rng)
            c["patients"] = gen_mpatients(rng, mods, lnls, 0, 5)
            c["midext"] = rng.choice([None, True, False])
            m = impl.build_midline(c)
        c["params"] = {n: gen.gen_value(rng) for n in _names_of(m, c["dists"])}
        if cls == "ml" and c["midext"] is True and c["params"].get("midext_prob") == 0.0:
            c["params"]["midext_prob"] = 0.25
        if cls == "ml" and c["midext"] is False and c["params"].get("midext_prob") == 1.0:
            c["params"]["midext_prob"] = 0.75
        c["diag"] = {"ipsi": gen_diag(rng, mods, lnls), "contra": gen_diag(rng, mods, lnls)}
        c["inv"] = {"ipsi": gen_pattern(rng, lnls, base), "contra": gen_pattern(rng, lnls, base)}
    c["t"] = list(c["dists"])[0]
    return c


def _ranks(rng, names):
    order = list(names)
    rng.shuffle(order)
    return {n: i for i, n in enumerate(order)}


def _bijection(rng, names, pool):
    """a bijection of `names` onto fresh names, or a permutation of `names` themselves"""
    names = list(names)
    if len(names) >= 2 and rng.random() < 0.35:
        img = names[:]
        while img == names:
            rng.shuffle(img)
        return dict(zip(names, img))
    return dict(zip(names, rng.sample(pool, len(names))))


def gen_tf(rng, case):
    g = case["graph"]
    nodes = gen.tumors_of(g) + gen.lnls_of(g)
    mods = sorted({m[0] for m in case["mods"]} | set(case.get("table_mods", [])))
    tf = {"node_rank": None, "conn_rank": None, "rename": None, "mod_rename": None, "mod_rank": None,
          "col_seed": None, "swap": False, "contra_rank": None}
    if rng.random() < 0.8:
        tf["node_rank"] = _ranks(rng, nodes)
    if rng.random() < 0.7:
        tf["conn_rank"] = _ranks(rng, nodes)
    if rng.random() < 0.75:
        r = rng.random()
        ren = {}
        if r < 0.8:
            # LNLs and tumours are renamed by one bijection; fresh names are drawn without replacement
            lnl_map = _bijection(rng, gen.lnls_of(g), FRESH_NODES)
            used = set(lnl_map.values())
            tum_map = _bijection(rng, gen.tumors_of(g), [n for n in FRESH_NODES if n not in used])
            ren.update(lnl_map)
            ren.update(tum_map)
        else:
            ren = {n: n for n in nodes}
            l0 = rng.choice(gen.lnls_of(g))
            ren[l0] = rng.choice(FRESH_NODES)      # a single LNL renamed
        tf["rename"] = ren
    if mods and rng.random() < 0.6:
        tf["mod_rename"] = _bijection(rng, mods, FRESH_MODS)
    if len(case["mods"]) >= 2 and rng.random() < 0.8:
        tf["mod_rank"] = _ranks(rng, mods)
    if rng.random() < 0.7:
        tf["col_seed"] = rng.randrange(1 << 30)
    if case["cls"] == "bi" and rng.random() < 0.5:
        tf["swap"] = True
    if case["cls"] == "bi" and not tf["swap"] and rng.random() < 0.85:
        tf["contra_rank"] = _ranks(rng, nodes)      # the contralateral side lists the same graph in another order
    return tf


# --------------------------------------------------------------------------
# the transformation of a case description
# --------------------------------------------------------------------------
def map_param_name(name: str, ren: dict, swap: bool) -> str:
    toks = name.split("_")
    if swap:
        toks = [{"ipsi": "contra", "contra": "ipsi"}.get(t, t) for t in toks]
    if toks[-1] in KINDS and len(toks) >= 2:
        e = toks[-2]
        if "to" in e:
            a, _, b = e.partition("to")
            toks[-2] = ren.get(a, a) + "to" + ren.get(b, b)
        else:
            toks[-2] = ren.get(e, e)
    return "_".join(toks)


def _ren_pattern(p, ren):
    return {ren.get(l, l): v for l, v in p.items()}


def _ren_diag(d, ren, mren):
    return {mren.get(m, m): _ren_pattern(p, ren) for m, p in d.items()}


def _by_rank(items, rank, key=lambda x: x):
    if not rank:
        return list(items)
    big = len(rank) + 1
    return sorted(items, key=lambda x: rank.get(key(x), big))     # stable: unknown names keep their relative order


def transform(case: dict, tf: dict) -> dict:
    ren = tf.get("rename") or {}
    mren = tf.get("mod_rename") or {}
    swap = bool(tf.get("swap"))
    c = copy.deepcopy(case)
    g = case["graph"]
    entries = _by_rank(g["entries"], tf.get("node_rank"), key=lambda e: e[1])
    c["graph"] = {"base": g["base"],
                  "entries": [[k, ren.get(n, n), [ren.get(x, x) for x in _by_rank(cs, tf.get("conn_rank"))]]
                              for k, n, cs in entries]}
    if tf.get("contra_rank") and case["cls"] == "bi" and not swap:
        centries = _by_rank(g["entries"], tf.get("contra_rank"), key=lambda e: e[1])
        c["contra_graph"] = {"base": g["base"],
                             "entries": [[k, ren.get(n, n), [ren.get(x, x) for x in _by_rank(cs, tf.get("conn_rank"))]]
                                         for k, n, cs in centries]}
    c["params"] = {map_param_name(n, ren, swap): v for n, v in (case.get("params") or {}).items()}
    c["mods"] = [[mren.get(m[0], m[0])] + list(m[1:]) for m in _by_rank(case["mods"], tf.get("mod_rank"), key=lambda m: m[0])]
    c["table_mods"] = [mren.get(m, m) for m in _by_rank(case["table_mods"], tf.get("mod_rank"))]
    flip = {"ipsi": "contra", "contra": "ipsi"} if swap else {}
    pats = []
    for p in case["patients"]:
        q = {k: v for k, v in p.items() if k != "find"}
        q["find"] = {mren.get(m, m): {flip.get(sd, sd): _ren_pattern(f, ren) for sd, f in sides.items()}
                     for m, sides in p["find"].items()}
        pats.append(q)
    c["patients"] = pats
    if case["cls"] == "uni":
        c["diag"] = _ren_diag(case["diag"], ren, mren)
        c["inv"] = _ren_pattern(case["inv"], ren)
    else:
        c["diag"] = {flip.get(sd, sd): _ren_diag(d, ren, mren) for sd, d in case["diag"].items()}
        c["inv"] = {flip.get(sd, sd): _ren_pattern(p, ren) for sd, p in case["inv"].items()}
    c["col_seed"] = tf.get("col_seed")
    return c


# --------------------------------------------------------------------------
# implementation side
# --------------------------------------------------------------------------
def build(case):
    if case["cls"] == "uni":
        return impl.build_uni(case)
    if case["cls"] == "bi":
        return impl.build_bilateral(case)
    return impl.build_midline(case)


def table(case):
    sides = ("ipsi",) if case["cls"] == "uni" else ("ipsi", "contra")
    df = impl.table_from_patients(case["patients"], case["table_mods"], gen.lnls_of(case["graph"]), sides,
                                  case["cls"] == "ml")
    if case.get("col_seed") is not None:
        cols = list(df.columns)
        random.Random(case["col_seed"]).shuffle(cols)
        df = df[cols]
    return df


def _graph_of(m, cls):
    if cls == "uni":
        return m.graph
    if cls == "bi":
        return m.ipsi.graph
    return m.ext.ipsi.graph


def observe(case):
    """Everything C15 compares, as plain python values; exceptions as ('err', class)."""
    out = {}
    def call(key, fn):
        try:
            out[key] = ("ok", fn())
        except Exception as e:  # noqa: BLE001
            out[key] = ("err", impl.err_enum(e), repr(e)[:200])
    try:
        m = build(case)
        m.load_patient_data(table(case))
    except Exception as e:  # noqa: BLE001
        return {"build": ("err", impl.err_enum(e), repr(e)[:200])}
    out["build"] = ("ok", None)
    g = _graph_of(m, case["cls"])
    out["lnls"] = list(g.lnls.keys())
    out["states"] = [list(map(int, row)) for row in np.asarray(g.state_list)]
    if case["cls"] == "bi":
        out["c_lnls"] = list(m.contra.graph.lnls.keys())
        out["c_states"] = [list(map(int, row)) for row in np.asarray(m.contra.graph.state_list)]
    mode = case["mode"]
    call("lik", lambda: float(m.likelihood(mode=mode)))
    call("lik_lin", lambda: float(m.likelihood(log=False, mode=mode)))
    call("lik_t", lambda: float(m.likelihood(t_stage=case["t"], mode=mode)))
    call("sd", lambda: np.asarray(m.state_dist(case["t"], mode=mode), dtype=float).tolist())
    kw = {"t_stage": case["t"], "mode": mode}
    if case["cls"] == "ml":
        kw["midext"] = case["midext"]
    call("risk", lambda: float(m.risk(involvement=case["inv"], given_diagnosis=case["diag"], **kw)))
    return out


def _close(a: float, b: float) -> bool:
    if math.isnan(a) or math.isnan(b):
        return math.isnan(a) and math.isnan(b)
    if math.isinf(a) or math.isinf(b):
        return a == b
    return abs(a - b) <= 1e-9 * max(1.0, abs(a), abs(b))


def state_perm(o1, o2, ren):
    """for every state index of the transformed model the index of the same assignment (by name) in the original"""
    back = {v: k for k, v in (ren or {}).items()}
    pos = {tuple(st): i for i, st in enumerate(o1["states"])}
    old_names = o1["lnls"]
    idx = []
    for st in o2["states"]:
        asg = {back.get(n, n): d for n, d in zip(o2["lnls"], st)}
        idx.append(pos[tuple(asg[n] for n in old_names)])
    return idx


def relation(case, tf, o1=None, o2=None):
    """None if the two models agree, else a mismatch dict."""
    o1 = o1 or observe(case)
    o2 = o2 or observe(transform(case, tf))
    if o1["build"][0] == "err" or o2["build"][0] == "err":
        if o1["build"][0] == o2["build"][0] and o1["build"][1] == o2["build"][1]:
            return None
        return {"observable": "construction / load_patient_data", "original": o1["build"], "transformed": o2["build"]}
    for key, name in (("lik", "likelihood()"), ("lik_lin", "likelihood(log=False)"), ("lik_t", "likelihood(t_stage)"),
                      ("risk", "risk(involvement, given_diagnosis)")):
        a, b = o1[key], o2[key]
        if a[0] == "err" or b[0] == "err":
            if not (a[0] == b[0] and a[1] == b[1]):
                return {"observable": name, "original": a, "transformed": b}
            continue
        if not _close(a[1], b[1]):
            return {"observable": name, "original": a[1], "transformed": b[1],
                    "statement": "identical for the original and the renamed / re-listed / side-swapped model"}
    a, b = o1["sd"], o2["sd"]
    if a[0] == "err" or b[0] == "err":
        if not (a[0] == b[0] and a[1] == b[1]):
            return {"observable": "state_dist(t)", "original": a, "transformed": b}
        return None
    if sorted(o2["lnls"]) != sorted((tf.get("rename") or {}).get(n, n) for n in o1["lnls"]):
        return {"observable": "graph.lnls", "original": o1["lnls"], "transformed": o2["lnls"]}
    idx = state_perm(o1, o2, tf.get("rename"))
    A = np.asarray(a[1], dtype=float)
    B = np.asarray(b[1], dtype=float)
    if case["cls"] == "uni":
        want = A[idx]
    elif case["cls"] == "bi":
        if tf.get("swap"):
            want = A.T[np.ix_(idx, idx)]
        else:
            idx_c = state_perm({"states": o1["c_states"], "lnls": o1["c_lnls"]},
                               {"states": o2["c_states"], "lnls": o2["c_lnls"]}, tf.get("rename"))
            want = A[np.ix_(idx, idx_c)]
    else:
        want = A[:, idx][:, :, idx]
    if want.shape != B.shape:
        return {"observable": "state_dist(t) shape", "original": list(A.shape), "transformed": list(B.shape)}
    bad = ~(np.abs(want - B) <= 1e-9 * np.maximum(1.0, np.abs(want)))
    if bad.any():
        k = tuple(int(i) for i in np.argwhere(bad)[0])
        return {"observable": "state_dist(t)", "index_in_transformed": list(k), "transformed": float(B[k]),
                "original_same_assignment": float(want[k]),
                "statement": "the same distribution with permuted state labels" + (" (transposed)" if tf.get("swap") else "")}
    return None


# --------------------------------------------------------------------------
# Coq cross-check on a sub-sample of unilateral cases
# --------------------------------------------------------------------------
def coq_expr(case, tcase):
    """per-patient Spec likelihoods and the Spec prior (listed in the ORIGINAL state order through `relist`)
    of the original and of the transformed case"""
    t = s(case["t"])
    pats = lst(coq_patient(p, "ipsi", tmap) for p in case["patients"])
    tpats = lst(coq_patient(p, "ipsi", tmap) for p in tcase["patients"])
    return (f"let u := {coq_uni(case)} in let u' := {coq_uni(tcase)} in "
            f"match get_pmf u {t}, get_pmf u' {t} with "
            f"| inr pm, inr pm' => Some (qouts (map (patient_lik_spec u pm) {pats}), qouts (map (patient_lik_spec u' pm') {tpats}), "
            f"qouts (map (prior_spec u pm) (u_states u)), "
            f"qouts (map (fun x => prior_spec u' pm' (relist (u_graph u) (u_graph u') x)) (u_states u))) "
            f"| _, _ => None end")


def coq_crosscheck(ctx: Ctx, pairs):
    """pairs: (case, tf) with cls == 'uni', HMM.  Renaming is undone on the Coq side by comparing through the
    un-renamed transformed graph for `relist` (names must agree), so only pairs without LNL renaming use the prior."""
    sel = []
    for case, tf in pairs:
        n = len(gen.lnls_of(case["graph"]))
        if case["cls"] != "uni" or case["mode"] != "HMM":
            continue
        if (case["graph"]["base"] ** n) ** case["max_time"] > 6000:
            continue
        sel.append((case, tf))
        if len(sel) >= (20 if ctx.tier == "quick" else 80):
            break
    if not sel:
        return
    exprs = []
    for case, tf in sel:
        exprs.append(coq_expr(case, transform(case, tf)))
    vals = run_coq_cases(ctx.work / "spec", exprs, IMPORTS, shard=5)
    for (case, tf), v in zip(sel, vals):
        ctx.bump("coq-spec-pairs")
        if v is None:
            continue
        assert isinstance(v, tuple) and v[0] == "Some", v
        l1, l2, p1, p2 = (fracs(x) for x in v[1])
        mm = None
        if l1 != l2:
            mm = {"observable": "Spec patient_lik_spec (Coq)", "original": l1, "transformed": l2,
                  "statement": "C15_*_model: patient_lik_spec identical"}
        elif not tf.get("rename") and p1 != p2:
            mm = {"observable": "Spec prior_spec through relist (Coq)", "original": p1, "transformed": p2,
                  "statement": "C15_listing_order_model: prior_spec u' pm (relist x) = prior_spec u pm x"}
        else:
            # the implementation's likelihood of the T-stage is the product of the Spec values (C01)
            sel_p = [v_ for p, v_ in zip(case["patients"], l1) if tmap(p["t"]) == case["t"]]
            prod = 1.0
            for f in sel_p:
                prod *= float(f)
            try:
                m = build(case)
                m.load_patient_data(table(case))
                got = float(m.likelihood(t_stage=case["t"], log=False))
                if not _close(got, prod):
                    mm = {"observable": "likelihood(t_stage, log=False) vs product of patient_lik_spec", "actual": got,
                          "expected": prod, "statement": "C01_patient_likelihoods"}
            except Exception as e:  # noqa: BLE001
                mm = {"observable": "likelihood(t_stage, log=False)", "actual": repr(e)[:200], "expected": prod}
        if mm:
            ctx.violation(f"{mm['observable']}: Spec / implementation disagree on an original-transformed pair",
                          {"case": case, "tf": tf, "mismatch": mm, "broken": "Coq Spec cross-check of C15",
                           "call": "evaluate patient_lik_spec / prior_spec on both cases"},
                          {"class": "uni", "call": "coq-spec"}, found_input="likelihood" in mm["observable"])


# --------------------------------------------------------------------------
# shrinking
# --------------------------------------------------------------------------
def _fix_after_graph_change(c, old):
    lnls = set(gen.lnls_of(c["graph"]))
    mods = {m[0] for m in c["mods"]}
    def fix_d(d):
        return {m: {l: v for l, v in p.items() if l in lnls} for m, p in d.items() if m in mods}
    def fix_p(p):
        return {l: v for l, v in p.items() if l in lnls}
    if c["cls"] == "uni":
        c["diag"] = fix_d(c["diag"])
        c["inv"] = fix_p(c["inv"])
    else:
        c["diag"] = {sd: fix_d(d) for sd, d in c["diag"].items()}
        c["inv"] = {sd: fix_p(p) for sd, p in c["inv"].items()}
        # composite parameter names: keep those whose arc still exists
        valid = set(gen.edge_param_names(c["graph"]))
        keep = {}
        for n, v in old["params"].items():
            toks = n.split("_")
            if toks[-1] in KINDS:
                if "_".join(toks[-2:]) in valid:
                    keep[n] = v
            else:
                keep[n] = v
        c["params"] = keep
    c["table_mods"] = [m for m in c["table_mods"] if m in mods or m == "XX"]
    return c


def candidates(pair):
    case, tf = pair
    out = []
    # 1. fewer transformations
    for k in ("swap", "rename", "mod_rename", "node_rank", "conn_rank", "mod_rank", "col_seed", "contra_rank"):
        if tf.get(k):
            t2 = dict(tf)
            t2[k] = False if k == "swap" else None
            out.append((case, t2))
    # 2. a smaller case
    from ..numcases import shrink_uni_case
    for c in shrink_uni_case(case):
        try:
            out.append((_fix_after_graph_change(c, case), tf))
        except Exception:  # noqa: BLE001
            pass
    for key in ("diag", "inv"):
        if case["cls"] == "uni" and case[key]:
            c = copy.deepcopy(case)
            c[key] = {}
            out.append((c, tf))
    return out


def what_changed(tf):
    ks = [k for k in ("node_rank", "conn_rank", "rename", "mod_rename", "mod_rank", "col_seed", "swap", "contra_rank") if tf.get(k)]
    return "+".join({"node_rank": "nodes", "conn_rank": "arcs", "rename": "names", "mod_rename": "modnames",
                     "mod_rank": "modorder", "col_seed": "columns", "swap": "sides", "contra_rank": "contralisting"}[k] for k in ks) or "identity"


def shrink_pair(pair, budget_s=30.0):
    import time
    t0 = time.time()
    cur = pair
    for _ in range(12):
        if time.time() - t0 > budget_s:
            break
        nxt = None
        for cand in candidates(cur):
            try:
                if relation(*cand) is not None:
                    nxt = cand
                    break
            except Exception:  # noqa: BLE001
                continue
        if nxt is None:
            break
        cur = nxt
    return cur


def is_nontrivial(case, tf):
    g = case["graph"]
    changed = False
    if tf.get("rename") and any(k != v for k, v in tf["rename"].items()):
        changed = True
    if tf.get("swap"):
        changed = True
    if tf.get("node_rank") and len(gen.lnls_of(g)) >= 2:
        t = transform(case, tf)
        changed = changed or gen.lnls_of(t["graph"]) != [(tf.get("rename") or {}).get(n, n) for n in gen.lnls_of(g)]
    if tf.get("mod_rank") or tf.get("conn_rank") or tf.get("mod_rename"):
        changed = True
    rec = any(v is not None for p in case["patients"] for sides in p["find"].values() for f in sides.values()
              for v in f.values())
    return changed and rec and gen.is_nontrivial_params(case.get("params") or {})


# --------------------------------------------------------------------------
# entry points
# --------------------------------------------------------------------------
def run(ctx: Ctx, a_ok: bool):
    ctx.cone = ["graph.Representation (node / arc creation order, names)", "matrix.generate_transition (parent look-up by position)",
                "matrix.compute_encoding / generate_data_encoding (LNL and modality order)", "utils.get_state_idx_matrix",
                "Unilateral.load_patient_data (columns by name)", "Bilateral / Midline composition of the sides",
                "Spec: trans_spec, evo_spec, prior_spec, findings_prob, patient_lik_spec, risk_spec, bi_joint_spec"]
    ctx.rule = ("random Unilateral / Bilateral / Midline cases (graphs <= 3 binary / 2 trinary LNLs, listing independent of "
                "the arcs' direction) x a random combination of {node order, arc order, renaming of LNLs / tumours "
                "(fresh names or a permutation of the existing ones), renaming of modalities, modality order, column "
                "order, side swap}; likelihood / state_dist / risk compared between the two models; non-trivial iff the "
                "transformation changes the listing, a name or the sides, some finding is recorded and some parameter "
                "is strictly between 0 and 1")
    n = 300 if ctx.tier == "quick" else 1500
    pairs = []
    for _ in range(n):
        case = gen_base(ctx.rng, ctx.tier)
        pairs.append((case, gen_tf(ctx.rng, case)))
    # directed pairs: the contralateral side lists the LNLs in REVERSE order (nothing else changes) and the involvement
    # pattern of that side distinguishes the LNLs
    extra = []
    for case, _tf in pairs:
        lnls = gen.lnls_of(case["graph"])
        if case["cls"] == "bi" and len(lnls) >= 2 and len(extra) < 12:
            c2 = copy.deepcopy(case)
            vals = [True, False] if case["graph"]["base"] == 2 else ["macro", "healthy"]
            c2["inv"]["contra"] = {lnls[0]: vals[0], lnls[1]: vals[1]}
            nodes = gen.tumors_of(case["graph"]) + lnls
            tf2 = {"node_rank": None, "conn_rank": None, "rename": None, "mod_rename": None, "mod_rank": None,
                   "col_seed": None, "swap": False, "contra_rank": {n: i for i, n in enumerate(reversed(nodes))}}
            extra.append((c2, tf2))
    pairs += extra
    reported = []
    for case, tf in pairs:
        ctx.count({"case": case, "tf": tf}, is_nontrivial(case, tf), f"{case['cls']}-base{case['graph']['base']}-{case['mode']}")
        for part in what_changed(tf).split("+"):
            ctx.bump("tf:" + part)
        mm = relation(case, tf)
        if mm is None:
            continue
        sig0 = {"class": case["cls"], "call": str(mm["observable"]).split("(")[0]}
        if sig0 in reported or len(reported) >= 3:
            continue
        small_case, small_tf = shrink_pair((case, tf))
        mm2 = relation(small_case, small_tf) or mm
        sig = {"class": small_case["cls"], "call": str(mm2["observable"]).split("(")[0]}
        reported.append(sig0)
        ctx.violation(f"{mm2['observable']} changes under {what_changed(small_tf)}",
                      {"case": small_case, "tf": small_tf, "transformed_case": transform(small_case, small_tf),
                       "mismatch": mm2,
                       "call": "build the model from `case` and from `transformed_case` (harness.props.c15.build / table), "
                               "load the tables, compare " + str(mm2["observable"]),
                       "broken": "metamorphic relation original vs transformed on /repo"}, sig)
    coq_crosscheck(ctx, pairs)


def replay(ctx: Ctx, path: str) -> int:
    data = json.loads(open(path).read())
    if data.get("signature", {}).get("call") == "coq-spec":
        coq_crosscheck(ctx, [(data["case"], data["tf"])])
        if ctx.violations:
            print("REPRODUCED", ctx.violations[0]["what"])
            return 1
        print("not reproduced")
        return 0
    mm = relation(data["case"], data["tf"])
    if mm:
        print("REPRODUCED", json.dumps(mm, default=str))
        return 1
    print("not reproduced")
    return 0
