"""C19: the graph object mirrors the graph dictionary and rejects malformed ones.

Tie: lymph.graph.Representation(graph_dict, allowed_states=range(base)) -- nodes, tumors, lnls,
edges (name, parent, child, kind), growth/tumor/lnl edge lists, initial parameters, to_dict(),
state_list, or the class of the exception raised -- vs the Coq model
Graph.build_graph / graph_view / err_tag, which properties/C19.v characterises for every valid
dictionary (GraphStatements.valid_dict) and for every listed fault class.

A case is {"base": b, "entries": [[kind, name, [children], "list"|"set"], ...], "fault": <label>}.
"""
from __future__ import annotations

import copy
import itertools
import json
from pathlib import Path

import subprocess

from .. import impl  # noqa: F401  (asserts lymph is imported from LYMPH_REPO)
from ..core import (COQ, HEADER, Ctx, HarnessError, VERIF, lst, nat, parse_coq, s, shrink, split_evals, tup)

from lymph import graph as lgraph

IMPORTS = "Base States Graph Transition GraphStatements"

TUMORS = ["T", "U"]
LNLS = ["A", "B", "C"]

# fault label -> model error tag the theorems predict (C19_malformed_rejected) ; None = only "model and code agree"
LISTED = {"set": 1, "dupconn": 2, "selfconn": 3, "dupname-t": 4, "dupname-l": 4,
          "notumor-drop": 5, "notumor-kind": 5, "nolnl-drop": 6, "nolnl-keep": 6}
EXTRA = ("unknown-target", "arc-into-tumor", "unknown-kind")
TAG_CLASS = {1: "TypeError", 2: "ValueError", 3: "ValueError", 4: "ValueError", 5: "ValueError",
             6: "ValueError", 7: "KeyError", 8: "TypeError"}
TAG_NAME = {1: "EConnSet", 2: "EDupConn", 3: "ESelfConn", 4: "EDupName", 5: "ENoTumor", 6: "ENoLnl",
            7: "EUnknownNode", 8: "EArcIntoTumor"}


# --------------------------------------------------------------------------
# generation
# --------------------------------------------------------------------------
def make_dict(base, tumors, lnls, arcs, order=None, conn_order=None):
    """arcs: set of (parent, child). order: listing order of node names. conn_order: key for children."""
    names = list(tumors) + list(lnls)
    order = list(order) if order is not None else names
    entries = []
    for n in order:
        cs = [c for c in lnls if (n, c) in arcs]
        if conn_order is not None:
            cs = conn_order(n, cs)
        entries.append(["tumor" if n in tumors else "lnl", n, cs, "list"])
    return {"base": base, "entries": entries, "fault": "none"}


def gen_valid(rng, max_lnls=3, n_lnls=None):
    nt = 1 if rng.random() < 0.6 else 2
    nl = n_lnls if n_lnls is not None else rng.randint(1, max_lnls)
    tumors = rng.sample(TUMORS, nt)
    lnls = rng.sample(LNLS, nl)
    arcs = set()
    for t in tumors:
        for l in lnls:
            if rng.random() < 0.55:
                arcs.add((t, l))
    for a in lnls:
        for b in lnls:
            if a != b and rng.random() < 0.4:      # cycles allowed: the representation accepts them
                arcs.add((a, b))
    order = tumors + lnls
    rng.shuffle(order)

    def conn_order(_n, cs):
        cs = list(cs)
        rng.shuffle(cs)
        return cs
    return make_dict(rng.choice([2, 3]), tumors, lnls, arcs, order, conn_order)


def corruptions(case):
    """Every single-fault corruption of a valid case (deterministic order)."""
    out = []
    ents = case["entries"]
    tumors = [n for k, n, _, _ in ents if k == "tumor"]
    lnls = [n for k, n, _, _ in ents if k == "lnl"]

    def mk(fault, entries):
        out.append({"base": case["base"], "entries": entries, "fault": fault})

    for i in range(len(ents)):
        e = copy.deepcopy(ents)
        e[i][3] = "set"
        mk("set", e)
    for i, (_, _, cs, _) in enumerate(ents):
        for j in range(len(cs)):
            for pos in sorted({0, len(cs)}):        # duplicate placed first / last
                e = copy.deepcopy(ents)
                e[i][2].insert(pos, cs[j])
                mk("dupconn", e)
    for i, (_, n, cs, _) in enumerate(ents):
        for pos in sorted({0, len(cs)}):
            e = copy.deepcopy(ents)
            e[i][2].insert(pos, n)
            mk("selfconn", e)
    # the same name under two kinds
    for i, (k, n, cs, _) in enumerate(ents):
        if k == "tumor":
            for a in lnls:
                if a not in cs:                     # otherwise the self connection is found first
                    e = copy.deepcopy(ents)
                    e[i][1] = a
                    mk("dupname-t", e)
        else:
            for t in tumors:
                e = copy.deepcopy(ents)
                e[i][1] = t
                mk("dupname-l", e)
    mk("notumor-drop", [copy.deepcopy(x) for x in ents if x[0] != "tumor"])
    mk("notumor-kind", [["lnl" if x[0] == "tumor" else x[0], x[1], list(x[2]), x[3]] for x in ents])
    mk("nolnl-drop", [[x[0], x[1], [], x[3]] for x in ents if x[0] != "lnl"])
    mk("nolnl-keep", [copy.deepcopy(x) for x in ents if x[0] != "lnl"])
    # outside the listed classes: only "model and code agree"
    for i, (_, _, cs, _) in enumerate(ents):
        for pos in sorted({0, len(cs)}):
            e = copy.deepcopy(ents)
            e[i][2].insert(pos, "Z")
            mk("unknown-target", e)
    for i, (_, n, cs, _) in enumerate(ents):
        for t in tumors:
            if t != n:
                e = copy.deepcopy(ents)
                e[i][2].append(t)
                mk("arc-into-tumor", e)
    for i in range(len(ents)):
        e = copy.deepcopy(ents)
        e[i][0] = "foo"
        mk("unknown-kind", e)
    return out


def all_valid(max_lnls, max_tumors=2, min_lnls=1):
    """All valid dictionaries with tumours a prefix of (T,U), LNLs a prefix of (A,B,C) with at most
    max_lnls LNLs: every arc subset, every listing order, children alphabetical or reversed, base 2 and 3."""
    seen = set()
    out = []
    for nt in range(1, max_tumors + 1):
        for nl in range(min_lnls, max_lnls + 1):
            tumors, lnls = TUMORS[:nt], LNLS[:nl]
            cand = [(t, l) for t in tumors for l in lnls] + [(a, b) for a in lnls for b in lnls if a != b]
            for mask in itertools.product([0, 1], repeat=len(cand)):
                arcs = {a for a, m in zip(cand, mask) if m}
                for order in itertools.permutations(tumors + lnls):
                    for rev in (False, True):
                        co = (lambda _n, cs: list(reversed(cs))) if rev else None
                        for base in (2, 3):
                            c = make_dict(base, tumors, lnls, arcs, order, co)
                            key = json.dumps(c, sort_keys=True)
                            if key not in seen:
                                seen.add(key)
                                out.append(c)
    return out


# --------------------------------------------------------------------------
# implementation side
# --------------------------------------------------------------------------
def py_dict(case):
    d = {}
    for k, n, cs, cont in case["entries"]:
        key = (k, n)
        if key in d:
            raise HarnessError(f"case is not a Python dict (repeated key {key}): {case}")
        d[key] = set(cs) if cont == "set" else list(cs)
    return d


def impl_fn(case):
    g = lgraph.Representation(py_dict(case), allowed_states=range(case["base"]))
    keys_ok = all(k == n.name for k, n in g.nodes.items()) and all(k == e.get_name() for k, e in g.edges.items())
    td = g.to_dict()
    return {
        "nodes": [[isinstance(n, lgraph.Tumor), k] for k, n in g.nodes.items()],
        "edges": [[k, [e.parent.name, e.child.name], 2 if e.is_growth else (0 if e.is_tumor_spread else 1)]
                  for k, e in g.edges.items()],
        "growth_edges": list(g.growth_edges.keys()),
        # (Coq prints ((kind, name), children) flat as (kind, name, children))
        "to_dict": [[k[0], k[1], v if isinstance(v, list) else ["<not a list>", repr(v)]] for k, v in td.items()],
        "state_list": [[int(v) for v in row] for row in g.state_list.tolist()],
        "tumors": list(g.tumors.keys()),
        "lnls": list(g.lnls.keys()),
        "tumor_edges": list(g.tumor_edges.keys()),
        "lnl_edges": list(g.lnl_edges.keys()),
        "init_params": [[float(e.spread_prob), float(e.micro_mod)] for e in g.edges.values()],
        "keys_consistent": bool(keys_ok),
        "is_trinary": bool(g.is_trinary),
    }


# Elaborating string literals and the match expression costs more than evaluating them; both are
# defined once per shard in the prelude and the cases refer to them by name.
NAMED = ["tumor", "lnl", "foo", "T", "U", "A", "B", "C", "Z"]
PRELUDE = (
    "Definition view (b : nat) (d : gdict) := (valid_dict b d, accepted_dict d, "
    "match build_graph b d with "
    "| inr g => inr (graph_view g, (tumors g, lnls g, map e_name (tumor_edges g), map e_name (lnl_edges g)), "
    "map (fun e => (qout (e_spread e), qout (e_micro e))) (g_edges g), wf_graphb g) "
    "| inl e => inl (err_tag e) end).\n"
    + "\n".join(f'Definition s_{x} : string := "{x}"%string.' for x in NAMED) + "\n")


def cs_(x: str) -> str:
    return f"s_{x}" if x in NAMED else s(x)


def coq_dict(case) -> str:
    items = []
    for k, n, cs, cont in case["entries"]:
        ctor = "CSet" if cont == "set" else "CList"
        items.append(tup(tup(cs_(k), cs_(n)), f"({ctor} {lst(cs_(c) for c in cs)})"))
    return lst(items)


def coq_expr(case):
    return f"view {nat(case['base'])} {coq_dict(case)}"


def norm(v):
    if isinstance(v, (tuple, list)):
        return [norm(x) for x in v]
    return v


def compare(case, obs, val):
    mm = _compare(case, obs, val)
    if mm is not None:
        valid, _, res = val
        mm["model_valid_dict"] = valid
        mm["model_result"] = "graph" if res[0] == "inr" else TAG_NAME[res[1]]
        # does a theorem of C19.v speak about this dictionary?  valid ones and the six listed fault classes
        mm["covered_by_theorem"] = bool(valid is True or (res[0] == "inl" and res[1] <= 6))
    return mm


def _compare(case, obs, val):
    valid, accepted, res = val
    fault = case["fault"]
    kind, payload = res[0], res[1]
    # --- self-checks of generator and model against the theorems (never an alarm about /repo)
    if fault == "none" and (valid is not True or kind != "inr"):
        raise HarnessError(f"generated 'valid' dictionary is not valid_dict / not accepted by the model: {case}")
    if fault in LISTED and (kind != "inl" or payload != LISTED[fault]):
        raise HarnessError(f"model does not reject fault {fault} with tag {LISTED[fault]} (got {res}): {case}")
    cl = classify(case)
    if (cl == "valid") != (valid is True) or (cl not in ("valid", None)) != (kind == "inl" and payload <= 6) \
            or (cl not in ("valid", None) and TAG_CLASS[payload] != cl):
        raise HarnessError(f"harness reading of the property ({cl}) disagrees with valid_dict/build_graph ({valid}, {res[:2] if kind == 'inl' else 'graph'}) on {case}")
    if (kind == "inr") != (accepted is True):
        raise HarnessError(f"accepted_dict disagrees with build_graph on {case}")
    what = "Representation(graph_dict, allowed_states=range(base))"
    if kind == "inl":
        exp_cls = TAG_CLASS[payload]
        if obs[0] == "ok":
            return {"observable": what, "actual": "accepted the dictionary",
                    "expected": f"raises {exp_cls} ({TAG_NAME[payload]})", "fault": fault,
                    "statement": "C19_malformed_rejected" if payload <= 6 else "model and code agree on accept/reject"}
        if obs[1] != exp_cls:
            return {"observable": what + " exception class", "actual": f"{obs[1]}: {obs[2]}",
                    "expected": f"{exp_cls} ({TAG_NAME[payload]})", "fault": fault,
                    "statement": "C19_malformed_rejected" if payload <= 6 else "model and code agree on error class"}
        return None
    if obs[0] == "err":
        return {"observable": what, "actual": f"raised {obs[1]}: {obs[2]}", "expected": "a graph", "fault": fault,
                "statement": "C19_nodes_in_order (a valid dictionary is accepted)"}
    o = obs[1]
    # Coq prints left-nested pairs flat: graph_view's five components come first
    nodes, edges, growth, todict, states, acc, params, wf = payload
    tumors, lnls, tedges, ledges = acc
    if wf is not True and valid is True:
        raise HarnessError(f"model graph of a valid dictionary is not wf_graphb: {case}")
    checks = [
        ("nodes (kind, name) in order", o["nodes"], norm(nodes), "C19_nodes_in_order"),
        ("tumors", o["tumors"], norm(tumors), "C19_nodes_in_order"),
        ("lnls", o["lnls"], norm(lnls), "C19_nodes_in_order"),
        ("edges (name, (parent, child), kind) in order", o["edges"], norm(edges), "C19_edges_one_per_connection"),
        ("growth_edges", o["growth_edges"], norm(growth), "C19_edges_one_per_connection"),
        ("tumor_edges", o["tumor_edges"], norm(tedges), "C19_edges_one_per_connection"),
        ("lnl_edges", o["lnl_edges"], norm(ledges), "C19_edges_one_per_connection"),
        ("to_dict()", o["to_dict"], norm(todict), "C19_to_dict_roundtrip"),
        ("state_list", o["state_list"], norm(states), "C19_state_list_enumerates"),
        ("node / edge dictionary keys equal the object names", o["keys_consistent"], True, "C19_edges_one_per_connection"),
    ]
    for name, act, exp, stmt in checks:
        if act != exp:
            return {"observable": name, "actual": act, "expected": exp, "fault": fault, "statement": stmt}
    exp_params = [[n1 / d1, n2 / d2] for n1, d1, (n2, d2) in params]   # ((n1,d1),(n2,d2)) prints as (n1, d1, (n2, d2))
    if len(exp_params) != len(o["init_params"]) or any(
            abs(a - b) > 1e-9 for ra, rb in zip(o["init_params"], exp_params) for a, b in zip(ra, rb)):
        return {"observable": "initial (spread_prob, micro_mod) of the edges", "actual": o["init_params"],
                "expected": exp_params, "fault": fault, "statement": "C19_edges_one_per_connection"}
    return None


# --------------------------------------------------------------------------
# the property statement evaluated on the implementation alone (expectation computed from the dictionary)
# --------------------------------------------------------------------------
def classify(case):
    """What the property TEXT says about a dictionary, read off the dictionary alone (no model, no code):
    'valid', one of the six listed fault classes (first fault in the order the statement of
    C19_malformed_rejected fixes), or None for dictionaries the property does not speak about."""
    ents = case["entries"]
    for _, n, cs, cont in ents:
        if cont == "set":
            return "TypeError"
        if len(set(cs)) != len(cs):
            return "ValueError"
        if n in cs:
            return "ValueError"
    names = [n for _, n, _, _ in ents]
    if len(set(names)) != len(names):
        return "ValueError"
    if not any(k == "tumor" for k, *_ in ents):
        return "ValueError"
    lnls = {n for k, n, _, _ in ents if k == "lnl"}
    if not lnls:
        return "ValueError"
    if any(k not in ("tumor", "lnl") for k, *_ in ents) or any(c not in lnls for _, _, cs, _ in ents for c in cs):
        return None
    arcnames = [f"{n}to{c}" for _, n, cs, _ in ents for c in cs] + (sorted(lnls) if case["base"] == 3 else [])
    if len(set(arcnames)) != len(arcnames) or case["base"] not in (2, 3):
        return None
    return "valid"


def statement_on_impl(case):
    """For a valid dictionary or one with a listed fault: what the property text demands, without the model."""
    base = case["base"]
    cl = classify(case)
    if cl is None:
        return None
    try:
        o = impl_fn(case)
    except Exception as e:  # noqa: BLE001
        cls = impl.err_enum(e)
        if cl == "valid":
            return {"observable": "Representation(valid dict)", "actual": f"raised {cls}", "expected": "a graph"}
        return None if cls == cl else {"observable": "exception class", "actual": cls, "expected": cl}
    if cl != "valid":
        return {"observable": "Representation(malformed dict)", "actual": "accepted", "expected": f"raises {cl}"}
    ents = case["entries"]
    exp_nodes = [[k == "tumor", n] for k, n, _, _ in ents]
    exp_edges = []
    for k, n, cs, _ in ents:
        if k == "lnl" and base == 3:
            exp_edges.append([n, [n, n], 2])
        for c in cs:
            exp_edges.append([f"{n}to{c}", [n, c], 0 if k == "tumor" else 1])
    nl = sum(1 for k, *_ in ents if k == "lnl")
    exp_states = [list(x) for x in itertools.product(range(base), repeat=nl)]
    exp_td = [[k, n, list(cs)] for k, n, cs, _ in ents]
    for name, act, exp in (("nodes", o["nodes"], exp_nodes), ("edges", o["edges"], exp_edges),
                           ("growth_edges", o["growth_edges"], [e[0] for e in exp_edges if e[2] == 2]),
                           ("to_dict()", o["to_dict"], exp_td), ("state_list", o["state_list"], exp_states)):
        if act != exp:
            return {"observable": name, "actual": act, "expected": exp}
    return None


# --------------------------------------------------------------------------
# shrinking
# --------------------------------------------------------------------------
def candidates(case):
    out = []
    ents = case["entries"]

    label = "none" if case["fault"] == "none" else "shrunk"   # "shrunk": no expectation attached to the label

    def mk(e, base=None):
        out.append({"base": base or case["base"], "entries": e, "fault": label})

    for i, (_, n, _, _) in enumerate(ents):       # drop a node and every reference to it
        if len(ents) > 1:
            mk([[k, m, [c for c in cs if c != n], cont] for j, (k, m, cs, cont) in enumerate(ents) if j != i])
    for i, (_, _, cs, _) in enumerate(ents):      # drop one connection
        for j in range(len(cs)):
            e = copy.deepcopy(ents)
            del e[i][2][j]
            mk(e)
    if case["base"] == 3:
        mk(copy.deepcopy(ents), base=2)
    # keep only python-representable dictionaries
    ok = []
    for c in out:
        keys = [(k, n) for k, n, _, _ in c["entries"]]
        if len(set(keys)) != len(keys):
            continue
        if label == "none":       # stay inside the valid dictionaries
            lnls = {n for k, n, _, _ in c["entries"] if k == "lnl"}
            if not lnls or not any(k == "tumor" for k, *_ in c["entries"]):
                continue
            if any(ch not in lnls for _, _, cs, _ in c["entries"] for ch in cs):
                continue
        ok.append(c)
    return ok


def run_coq_files(workdir: Path, exprs: list[str], shard: int = 1500) -> list:
    """Like core.run_coq_cases, but coqc writes to files: with stdout on a pipe the 16 parallel
    processes block as soon as their pipe buffer is full (each shard prints several 100 kB) and the
    shards run one after the other."""
    workdir.mkdir(parents=True, exist_ok=True)
    files = []
    for k in range(0, len(exprs), shard):
        f = workdir / f"cases_{k // shard}.v"
        with open(f, "w") as fh:
            fh.write(HEADER.format(imports=IMPORTS))
            fh.write(PRELUDE + "\n")
            for e in exprs[k:k + shard]:
                fh.write(f"Eval vm_compute in ({e}).\n")
        files.append(f)
    pending = list(files)
    running = []
    done = {}
    while pending or running:
        while pending and len(running) < 16:
            f = pending.pop(0)
            out = open(f.with_suffix(".out"), "w")
            err = open(f.with_suffix(".err"), "w")
            p = subprocess.Popen(["timeout", "900", "coqc", "-Q", str(COQ / "theories"), "LymphModel", f.name],
                                 cwd=workdir, stdout=out, stderr=err)
            running.append((f, p, out, err))
        f, p, out, err = running.pop(0)
        p.wait()
        out.close()
        err.close()
        if p.returncode != 0:
            raise HarnessError(f"coqc failed on {f}: {f.with_suffix('.err').read_text()[-2000:]}")
        done[f] = f.with_suffix(".out").read_text()
    results = []
    for k, f in enumerate(files):
        vals = split_evals(done[f])
        expect = len(exprs[k * shard:(k + 1) * shard])
        if len(vals) != expect:
            raise HarnessError(f"{f}: expected {expect} results, got {len(vals)}")
        results.extend(parse_coq(v) for v in vals)
    return results


def failing(ctx, cases, tag):
    observed = []
    for c in cases:
        try:
            observed.append(("ok", impl_fn(c)))
        except HarnessError:
            raise
        except Exception as e:  # noqa: BLE001
            observed.append(("err", impl.err_enum(e), repr(e)[:300]))
    vals = run_coq_files(ctx.work / tag, [coq_expr(c) for c in cases])
    bad = []
    for c, o, v in zip(cases, observed, vals):
        mm = compare(c, o, v)
        if mm is not None:
            bad.append((c, mm))
    badset = {json.dumps(c, sort_keys=True) for c, _ in bad}
    return [json.dumps(c, sort_keys=True) in badset for c in cases], bad


def nontrivial(case):
    if case["fault"] != "none":
        return True
    lnls = {n for k, n, _, _ in case["entries"] if k == "lnl"}
    return len(lnls) >= 2 and any(k == "lnl" and cs for k, _, cs, _ in case["entries"])


def run(ctx: Ctx, a_ok: bool):
    ctx.cone = ["Graph.check_unique_names", "Graph.init_nodes", "Graph.init_edges", "Graph.build_graph",
                "Graph.to_dict", "Graph.state_list", "States.all_states", "GraphStatements.valid_dict"]
    ctx.rule = ("graph dictionaries over tumours {T,U} x LNLs {A,B,C}: valid ones (any arc subset incl. cycles, any listing "
                "order, shuffled children, base 2/3) and single-fault corruptions (set container, duplicate / self connection, "
                "same name under two kinds, no tumour, no LNL; plus unknown target / arc into a tumour / unknown node kind, "
                "compared only for accept/reject and exception class); non-trivial iff corrupted, or valid with >= 2 LNLs and "
                "an LNL->LNL arc")
    rng = ctx.rng
    cases = []
    cdir = VERIF / "corpus" / "C19"
    if cdir.is_dir():
        for f in sorted(cdir.glob("*.json")):
            cases.append(json.loads(f.read_text())["case"])
    if ctx.tier == "quick":
        faults = list(LISTED) + list(EXTRA)
        for i in range(130):
            v = gen_valid(rng)
            cases.append(v)
            cors = corruptions(v)
            by = {}
            for c in cors:
                by.setdefault(c["fault"], []).append(c)
            # two corruptions per valid dictionary, fault classes taken round robin so that each is covered
            for j in range(2):
                want = faults[(2 * i + j) % len(faults)]
                pool = by.get(want) or cors
                cases.append(rng.choice(pool))
    else:
        small = all_valid(2)
        for v in small:
            cases.append(v)
            cases.extend(corruptions(v))
        ctx.exhaustive = True
        three = all_valid(3, max_tumors=1, min_lnls=3)     # valid only: their corruptions would be ~1.7 million cases
        cases.extend(three)
        n3 = 500
        for _ in range(n3):
            v = gen_valid(rng, n_lnls=3)
            cases.append(v)
            cases.extend(corruptions(v))
        ctx.extra["exhaustive_space"] = (
            f"{len(small)} valid dictionaries = all with tumours a prefix of (T,U), LNLs a prefix of (A,B) (<= 2 LNLs): every arc "
            f"subset, every listing order, children ascending or descending, base 2 and 3; each with EVERY single-fault "
            f"corruption; plus all {len(three)} valid dictionaries with one tumour and the three LNLs A,B,C (same enumeration, "
            f"without corruptions); plus {n3} random 3-LNL dictionaries with every single-fault corruption (sampled, not exhaustive)")
    # de-duplicate (corruptions of different dictionaries can coincide)
    seen, uniq = set(), []
    for c in cases:
        key = json.dumps(c, sort_keys=True)
        if key not in seen:
            seen.add(key)
            uniq.append(c)
    cases = uniq
    for c in cases:
        nl = sum(1 for k, *_ in c["entries"] if k == "lnl")
        ctx.count(c, nontrivial(c), f"base{c['base']}-lnls{nl}-{c['fault']}")
    _, bad = failing(ctx, cases, "main")
    seen_sigs = []
    for case, mm in bad:
        if len(seen_sigs) >= 3:
            break
        sig = {"fault": case["fault"], "observable": str(mm.get("observable"))}
        if sig in seen_sigs:
            continue
        seen_sigs.append(sig)
        small = shrink(ctx, case, candidates, lambda cs: failing(ctx, cs, "shrink")[0])
        _, bad2 = failing(ctx, [small], "final")
        if bad2:
            mm = bad2[0][1]
        else:
            small = case
        # the property statement itself on the implementation (expectation computed from the dictionary alone)
        direct = statement_on_impl(small)
        covered = mm.get("covered_by_theorem", False)
        ctx.violation(f"{mm.get('observable')}: graph object differs from what the dictionary denotes"
                      if mm.get("model_result") == "graph" else
                      f"{mm.get('observable')}: malformed dictionary ({mm.get('model_result')}) not rejected as specified",
                      {"case": small, "mismatch": mm, "property_on_implementation": direct,
                       "call": "lymph.graph.Representation({(kind, name): children ...}, allowed_states=range(base)); "
                               + str(mm.get("observable")),
                       "broken": "correspondence Graph.build_graph / graph_view / err_tag vs /repo"},
                      {"fault": case["fault"], "observable": str(mm.get("observable"))},
                      found_input=bool(covered))


def replay(ctx: Ctx, path: str) -> int:
    data = json.loads(open(path).read())
    try:
        _, bad = failing(ctx, [data["case"]], "replay")
    finally:
        import shutil
        shutil.rmtree(ctx.work, ignore_errors=True)
    if bad:
        print("REPRODUCED", json.dumps(bad[0][1], default=str))
        return 1
    print("not reproduced")
    return 0
