"""C16: synthetic patients are drawn from the model's own predictive distribution.

Tie (exact, no frequency test): `draw_patients(num, stage_dist, rng=RecordingRNG(seed))` for Unilateral / Bilateral /
Midline (use_midext_evo true/false) is a deterministic function of the stream of uniforms it consumes.  The harness
records every `rng.choice(a, p, size)` call (probability vector, uniforms, returned indices), evaluates the Coq
model (`Sampling.draw_patients_*`, `table_*`) on the SAME uniforms (exact rationals `Fraction(float)`), and compares
  (a) every probability vector the code passed to `choice` and every returned index, and the emitted table, with the
      model's (cohorts in which a uniform lies within 1e-9 of a breakpoint of the model's CDF are skipped and counted);
  (b) `load_patient_data(drawn, mapping=identity)` -> `data_matrix()` one-hot at the drawn observation index, each side;
  (c) equal seeds with the REAL `np.random.default_rng(seed)` give equal tables, and the real Generator and the
      recording rng with the same seed give the same table (validates "choice = inverse CDF" on every run);
  (d) column layout: one (modality, side, lnl) column per finding, T-stage column, (midline) extension column.
use_central: NotImplementedError on both sides.
"""
from __future__ import annotations

import copy
import json
import random
from fractions import Fraction

import numpy as np

from .. import gen, impl
from ..core import Ctx, fracs, run_standard, unres, q, lst, nat
from ..coqterms import coq_bilateral, coq_midline, coq_uni
from ..numcases import shrink_uni_case

IMPORTS = ("Base States Linalg Graph Transition Observation Dist Unilateral UniStatements Models Bilateral Midline "
           "BiStatements Sampling")
MARGIN = float(__import__("os").environ.get("C16_MARGIN", "1e-9"))   # override only to exercise the skip path


# --------------------------------------------------------------------------------------------------
# the recording generator
# --------------------------------------------------------------------------------------------------
class RecordingRNG:
    """Duck-typed stand-in for numpy.random.Generator: only `.choice(a, p, size)`, implemented as the inverse CDF
    (searchsorted side='right' on the renormalised cumulative sum) of uniforms taken from a real seeded Generator."""

    def __init__(self, seed: int):
        self.gen = np.random.default_rng(seed)
        self.log: list[dict] = []

    def choice(self, a, size=None, replace=True, p=None, axis=0, shuffle=True):
        arr = np.asarray(a)
        if p is None:
            raise TypeError("RecordingRNG.choice: the samplers always pass p")
        pv = np.asarray(p, dtype=float)
        if arr.ndim != 1 or pv.shape != arr.shape:
            raise ValueError("a and p must have same size")
        cdf = pv.cumsum()
        cdf = cdf / cdf[-1]
        u = self.gen.random(size)
        idx = cdf.searchsorted(u, side="right")
        self.log.append({"p": pv.tolist(), "size": size, "u": np.atleast_1d(u).astype(float).tolist(),
                         "idx": [int(i) for i in np.atleast_1d(idx)]})
        return arr[idx]


# --------------------------------------------------------------------------------------------------
# cases
# --------------------------------------------------------------------------------------------------
def gen_stage_dist(rng, k):
    r = rng.random()
    if r < 0.3:                                   # sums to one exactly (no renormalisation)
        if k == 1:
            return [1.0]
        a = rng.choice([0.0, 0.25, 0.5, 0.75, 0.125, 1.0])
        return [a, 1.0 - a]
    w = [rng.choice([0, 1, 2, 3, 5, 0.5, 0.25, 0.375]) for _ in range(k)]
    if sum(w) == 0:
        w[rng.randrange(k)] = 1
    if r > 0.9:
        w = [x * 0.3 for x in w]                  # non-dyadic weights
    return [float(x) for x in w]


def gen_case(rng, tier):
    kind = rng.choice(["uni", "uni", "bi", "bi", "bi", "ml", "ml", "ml", "ml"])
    base = rng.choice([2, 2, 3])
    g = gen.gen_graph(rng, max_lnls=2, base=base)
    mt = rng.randint(0, 3)
    c = {"kind": kind, "graph": g, "mods": gen.gen_modalities(rng, 1, 2), "max_time": mt, "dists": gen.gen_dists(rng, mt),
         "seed_params": rng.randrange(1 << 30), "seed": rng.randrange(1 << 30), "num": rng.randint(5, 20)}
    c["stage_dist"] = gen_stage_dist(rng, len(c["dists"]))
    if len(c["mods"]) == 2 and c["mods"][0][0] < c["mods"][1][0] and rng.random() < 0.6:
        # directed (C16-m1 / R4-g4-m1): two modalities registered in NON-alphabetical order with different values: the drawn
        # table's columns follow the registration order, not the sorted names
        c["mods"].reverse()
        if c["mods"][0][1:3] == c["mods"][1][1:3]:
            c["mods"][0][1] = 0.75 if c["mods"][0][1] != 0.75 else 0.875
    if kind == "uni":
        c["params"] = gen.gen_edge_params(rng, g)
    elif kind == "bi":
        c["sym"] = {"tumor_spread": rng.random() < 0.5, "lnl_spread": rng.random() < 0.5}
        # the contralateral side parametrised directly afterwards (the class allows it; R6-C16-m1: a sampler that trusts
        # the symmetry flags instead of the side's own parameters)
        c["contra_direct"] = rng.random() < 0.4
        if rng.random() < 0.3:
            c["sym"] = {"tumor_spread": True, "lnl_spread": True}
            c["contra_direct"] = True
    else:
        c["flags"] = {"use_mixing": rng.random() < 0.5, "lnl_sym": rng.random() < 0.5,
                      "marginalize_unknown": rng.random() < 0.5, "use_midext_evo": rng.random() < 0.6,
                      "use_central": rng.random() < 0.08}
        if c["flags"]["use_central"]:
            c["flags"]["use_midext_evo"] = False      # the constructor rejects central + evolution
        c["boundary"] = rng.choice([None, None, None, None, "midext0", "midext1"])
    return c


def build(case):
    m = _build(case)
    # a history that ends in the case's own modality collection (other order in between): the drawn table follows the
    # CURRENT collection's order
    impl.prime_modality_order(m, case, lambda mm: None)
    # ... and in the case's own max_time, reached through a larger one whose pmfs were evaluated; the change back is the
    # LAST operation before drawing (nothing reads a pmf in between): draws must use the re-evaluated pmf
    dists = case.get("dists") or {}
    if dists and all("fam" in d for d in dists.values()):
        mt = case.get("max_time", 10)
        m.max_time = mt + 2
        for t in dists:
            _ = m.get_distribution(t).pmf
        m.max_time = mt
    return m


def _build(case):
    kind = case["kind"]
    if kind == "uni":
        return impl.build_uni(case)
    m = impl.build_bilateral(case) if kind == "bi" else impl.build_midline(case)
    rng = random.Random(case["seed_params"])
    names = [n for n in m.get_params() if n.split("_")[0] not in case["dists"]]
    vals = {n: gen.gen_value(rng) for n in names}
    if kind == "ml":
        if "midext_prob" in vals and vals["midext_prob"] in (0.0, 1.0) and case.get("boundary") is None:
            vals["midext_prob"] = 0.25
        if case.get("boundary") == "midext0":
            vals["midext_prob"] = 0.0
        elif case.get("boundary") == "midext1":
            vals["midext_prob"] = 1.0
    m.set_params(**vals)
    if kind == "bi" and case.get("contra_direct"):
        leaf = {n: gen.gen_value(rng) for n in m.contra.get_params() if n.split("_")[0] not in case["dists"]}
        m.contra.set_params(**leaf)
    return m


def sides_of(case):
    return ("ipsi",) if case["kind"] == "uni" else ("ipsi", "contra")


def lnls_of_model(m, case):
    if case["kind"] == "uni":
        return list(m.graph.lnls.keys())
    if case["kind"] == "bi":
        return list(m.ipsi.graph.lnls.keys())
    return list(m.ext.ipsi.graph.lnls.keys())


# --------------------------------------------------------------------------------------------------
# implementation side
# --------------------------------------------------------------------------------------------------
def table_rows(df, case, mods, lnls):
    """The DataFrame read by column label: one dict per row."""
    rows = []
    for k in range(len(df)):
        r = {"stage": str(df[("tumor", "1", "t_stage")].iloc[k]) if case["kind"] != "uni" else str(df[("tumor", "1", "t_stage")].iloc[k])}
        if case["kind"] == "ml":
            r["ext"] = bool(df[("tumor", "1", "extension")].iloc[k])
            r["time"] = int(df[("patient", "#", "diagnosis_time")].iloc[k])
        for sd in sides_of(case):
            r[sd] = {mname: {l: int(bool(df[(mname, sd, l)].iloc[k])) for l in lnls} for mname in mods}
        rows.append(r)
    return rows


def expected_columns(case, mods, lnls):
    cols = {(mname, sd, l) for mname in mods for sd in sides_of(case) for l in lnls}
    cols.add(("tumor", "1", "t_stage"))
    if case["kind"] == "ml":
        cols.add(("tumor", "1", "extension"))
        cols.add(("patient", "#", "diagnosis_time"))
    return cols


def _dm(model):
    return np.asarray(model.data_matrix(), dtype=int).tolist()


_stash = {}


def impl_fn(case):
    m = build(case)
    key = json.dumps(case, sort_keys=True)
    rec = RecordingRNG(case["seed"])
    out = {"model": m}
    _stash[key] = {"model": m, "log": rec.log}
    num, sd = case["num"], list(case["stage_dist"])
    try:
        df = m.draw_patients(num, list(sd), rng=rec)
    except Exception as e:  # noqa: BLE001
        _stash[key]["log"] = []
        return {"raised": impl.err_enum(e), "msg": repr(e)[:200]}
    mods = [mm[0] for mm in case["mods"]]
    lnls = lnls_of_model(m, case)
    res = {"raised": None, "log": rec.log, "columns": [tuple(c) for c in df.columns.tolist()], "nrows": len(df)}
    try:
        res["rows"] = table_rows(df, case, mods, lnls)
    except Exception as e:  # noqa: BLE001
        res["rows_error"] = repr(e)[:200]
        return res
    # (c) the real generator: equal seeds -> equal tables; real == recording
    try:
        d1 = m.draw_patients(num, list(sd), rng=np.random.default_rng(case["seed"]))
        d2 = m.draw_patients(num, list(sd), rng=np.random.default_rng(case["seed"]))
        d3 = m.draw_patients(num, list(sd), seed=case["seed"])
        res["real_equal_seed"] = bool(d1.equals(d2)) and bool(d1.equals(d3))
        res["real_equals_recording"] = bool(d1.equals(df))
    except Exception as e:  # noqa: BLE001
        res["real_error"] = impl.err_enum(e) + ": " + repr(e)[:200]
    # (b) round trip through load_patient_data with the identity mapping
    try:
        m2 = build(case)
        m2.load_patient_data(df, mapping=lambda x: x)
        if case["kind"] == "uni":
            res["dm"] = {"ipsi": _dm(m2)}
        elif case["kind"] == "bi":
            res["dm"] = {"ipsi": _dm(m2.ipsi), "contra": _dm(m2.contra)}
        else:
            res["dm"] = {"ext_ipsi": _dm(m2.ext.ipsi), "ext_contra": _dm(m2.ext.contra),
                         "noext_ipsi": _dm(m2.noext.ipsi), "noext_contra": _dm(m2.noext.contra)}
            if m2.marginalize_unknown:
                res["dm"]["unknown_rows"] = len(_dm(m2.unknown.ipsi))
    except Exception as e:  # noqa: BLE001
        res["dm_error"] = impl.err_enum(e) + ": " + repr(e)[:200]
    return res


# --------------------------------------------------------------------------------------------------
# model side
# --------------------------------------------------------------------------------------------------
def stream_of(log):
    us = []
    for call in log:
        us.extend(call["u"])
    return us


def _diag_out(expr):
    return expr


def coq_expr(case):
    key = json.dumps(case, sort_keys=True)
    st = _stash.get(key)
    if st is None:
        m = build(case)
        log = []
    else:
        m, log = st["model"], st["log"]
    xs = lst(q(Fraction(u)) for u in stream_of(log))
    sd = lst(q(Fraction(x)) for x in case["stage_dist"])
    num = nat(case["num"])
    row = "(fun r => (tr_stage r, tr_ext r, tr_time r, tr_ipsi r, tr_contra r))"
    if case["kind"] == "uni":
        u = coq_uni(case)
        return (f"let u := {u} in let sd := {sd} in let xs := {xs} in let ds := draw_patients_uni u {num} sd xs in "
                f"(qouts (renorm_stage_dist sd), ds, "
                f"map (fun d => let '(s, t, o) := d in (qouts (stage_pmf u s), qouts (obs_probs u t))) ds, "
                f"map {row} (map (uni_row u) ds), map (fun d => length (u_obs_list u)) [0%nat])")
    if case["kind"] == "bi":
        b = coq_bilateral(case, m, case["sym"]["tumor_spread"], case["sym"]["lnl_spread"])
        return (f"let b := {b} in let sd := {sd} in let xs := {xs} in let ds := draw_patients_bi b {num} sd xs in "
                f"(qouts (renorm_stage_dist sd), ds, "
                f"map (fun d => let '(s, t, i, c) := d in (qouts (stage_pmf (b_ipsi b) s), qouts (obs_probs (b_ipsi b) t), "
                f"qouts (obs_probs (b_contra b) t))) ds, "
                f"map {row} (map (bi_row b) ds), [length (u_obs_list (b_ipsi b)); length (u_obs_list (b_contra b))])")
    ml = coq_midline(case, m)
    return (f"let ml := {ml} in let sd := {sd} in let xs := {xs} in "
            f"match draw_patients_ml ml {num} sd xs with inl e => inl e | inr ds => inr "
            f"(qouts (renorm_stage_dist sd), ds, "
            f"map (fun d => let '(s, t, e, i, c) := d in (qouts (stage_pmf (ml_ipsi ml) s), qouts (ext_probs ml t), "
            f"qouts (ml_ipsi_probs ml e t), qouts (ml_contra_probs ml e t))) ds, "
            f"map {row} (map (ml_row ml) ds), [length (u_obs_list (ml_ipsi ml)); length (u_obs_list (b_contra (ml_ext ml)))]) end")


# --------------------------------------------------------------------------------------------------
# comparison
# --------------------------------------------------------------------------------------------------
def _pclose(actual, expected):
    if len(actual) != len(expected):
        return False
    return all(abs(float(a) - float(e)) <= 1e-9 * max(1.0, abs(float(e))) for a, e in zip(actual, expected))


def _margin(p, u):
    """distance of u from the nearest breakpoint of the exact CDF of the model's weights p (Fractions)"""
    tot = sum(p)
    if tot == 0:
        return 0.0
    acc = Fraction(0)
    best = None
    uu = Fraction(u)
    for w in p:
        acc += w
        d = abs(acc / tot - uu)
        best = d if best is None or d < best else best
    return float(best) if best is not None else 1.0


def _ind(v):
    # ("Some", ("ctor","IInvolved")) / ("Some", ("ctor","IHealthy"))
    if isinstance(v, tuple) and v[0] == "Some":
        name = v[1][1] if isinstance(v[1], tuple) else v[1]
        return {"IHealthy": 0, "IInvolved": 1}.get(name, name)
    return None


def _diag(d):
    return {mname: {l: _ind(v) for l, v in pat} for mname, pat in d}


def _opt(v):
    if isinstance(v, tuple) and v and v[0] == "Some":
        return v[1]
    return v


def model_rows(case, rows):
    out = []
    for stage, ext, time, ipsi, contra in rows:
        r = {"stage": stage}
        if case["kind"] == "ml":
            r["ext"] = _opt(ext)
            r["time"] = _opt(time)
        r["ipsi"] = _diag(ipsi)
        if case["kind"] != "uni":
            r["contra"] = _diag(_opt(contra))
        out.append(r)
    return out


def call_plan(case, draws):
    """Which recorded call / position belongs to which patient and role, in the order of consumption of the code."""
    n = case["num"]
    plan = []       # (call index, position in call, patient, role)
    plan += [(0, i, i, "stage") for i in range(n)]
    c = 1
    plan += [(c + i, 0, i, "time") for i in range(n)]
    c += n
    if case["kind"] == "uni":
        plan += [(c + i, 0, i, "ipsi") for i in range(n)]
        return plan, c + n
    if case["kind"] == "bi":
        plan += [(c + i, 0, i, "ipsi") for i in range(n)]
        c += n
        plan += [(c + i, 0, i, "contra") for i in range(n)]
        return plan, c + n
    if case["flags"]["use_midext_evo"]:
        plan += [(c + i, 0, i, "ext") for i in range(n)]
        c += n
    else:
        plan += [(c, i, i, "ext") for i in range(n)]
        c += 1
    for flag in (True, False):
        grp = [i for i in range(n) if bool(draws[i][2]) == flag]
        plan += [(c + j, 0, i, "ipsi") for j, i in enumerate(grp)]
        c += len(grp)
        plan += [(c + j, 0, i, "contra") for j, i in enumerate(grp)]
        c += len(grp)
    return plan, c


STMT = ("each patient: T-stage ~ stage_dist/sum, time ~ that stage's pmf, (midline) extension ~ P(e | t), findings ~ the model's "
        "predictive distribution at that time (and status), both sides from the same time (C16_*_draw_is_predictive)")


def compare(case, obs, val):
    if obs[0] == "err":
        return {"observable": "harness/impl", "actual": f"raised {obs[1]}: {obs[2]}", "expected": "a table"}
    o = obs[1]
    central = case["kind"] == "ml" and case["flags"]["use_central"]
    if case["kind"] == "ml":
        kind, payload = unres(val)
        if kind == "err":
            if o.get("raised") == payload:
                return None
            return {"observable": "draw_patients()", "actual": o.get("raised") or "a table", "expected": f"raises {payload}",
                    "statement": "C16_ml_central_not_implemented"}
        val = payload
    if o.get("raised"):
        return {"observable": "draw_patients()", "actual": f"raised {o['raised']}: {o.get('msg')}", "expected": "a table"}
    if central:
        return {"observable": "draw_patients()", "actual": "a table", "expected": "raises NotImplementedError"}
    sdv, draws, pvs, rows, widths = val
    n = case["num"]
    mods = [mm[0] for mm in case["mods"]]
    m = o["model"] if "model" in o else None
    # (d) layout
    lnls = gen.lnls_of(case["graph"])
    exp_cols = expected_columns(case, mods, lnls)
    if set(o["columns"]) != exp_cols or len(o["columns"]) != len(exp_cols):
        return {"observable": "draw_patients().columns", "actual": sorted(map(str, o["columns"])),
                "expected": sorted(map(str, exp_cols)), "statement": "one (modality, side, lnl) column per finding"}
    if o["nrows"] != n:
        return {"observable": "len(draw_patients())", "actual": o["nrows"], "expected": n}
    if "rows_error" in o:
        return {"observable": "draw_patients() cells", "actual": o["rows_error"], "expected": "0/1 findings"}
    # (a) calls
    sdv = fracs(sdv)
    log = o["log"]
    if len(draws) != n:
        return {"observable": "uniforms consumed through rng.choice by draw_patients (the model, fed with the recorded "
                              "stream, could draw only some of the patients)", "actual": len(draws), "expected": n,
                "statement": "every random choice of draw_patients comes from the rng / seed that was passed (equal seeds give equal tables)"}
    plan, ncalls = call_plan(case, draws)
    role_p = []
    for i in range(n):
        pv = [fracs(x) for x in pvs[i]]
        d = draws[i]
        if case["kind"] == "uni":
            role_p.append({"stage": (sdv, d[0]), "time": (pv[0], d[1]), "ipsi": (pv[1], d[2])})
        elif case["kind"] == "bi":
            role_p.append({"stage": (sdv, d[0]), "time": (pv[0], d[1]), "ipsi": (pv[1], d[2]), "contra": (pv[2], d[3])})
        else:
            role_p.append({"stage": (sdv, d[0]), "time": (pv[0], d[1]), "ext": (pv[1], int(bool(d[2]))),
                           "ipsi": (pv[2], d[3]), "contra": (pv[3], d[4])})
    # breakpoint margin: skip the cohort if any uniform is too close to a breakpoint of the model's CDF
    if len(log) >= 1 and len(stream_of(log)) >= len(plan):
        for ci, pos, i, role in plan:
            if ci < len(log) and pos < len(log[ci]["u"]):
                if _margin(role_p[i][role][0], log[ci]["u"][pos]) < MARGIN:
                    return "skip"
    if len(log) != ncalls:
        return {"observable": "number of rng.choice calls", "actual": len(log), "expected": ncalls, "statement": STMT}
    for ci, pos, i, role in plan:
        call = log[ci]
        if pos >= len(call["idx"]):
            return {"observable": f"rng.choice call {ci} size", "actual": len(call["idx"]), "expected": f"> {pos}"}
        p_model, idx_model = role_p[i][role]
        if not _pclose(call["p"], p_model):
            return {"observable": f"probabilities passed to rng.choice for the {role} of a patient", "patient": i,
                    "actual": call["p"], "expected": [float(x) for x in p_model], "statement": STMT}
        if call["idx"][pos] != idx_model:
            return {"observable": f"index drawn for the {role} of a patient", "patient": i, "actual": call["idx"][pos],
                    "expected": idx_model, "uniform": call["u"][pos], "statement": STMT}
    # the emitted table
    mrows = model_rows(case, rows)
    for i, (ra, re_) in enumerate(zip(o["rows"], mrows)):
        if ra != re_:
            return {"observable": "row of the emitted table", "patient": i, "actual": ra, "expected": re_,
                    "statement": "the table holds, under the (modality, side, lnl) labels, the drawn observation of that side"}
    # (c)
    if "real_error" in o:
        return {"observable": "draw_patients(rng=np.random.default_rng(seed))", "actual": "raised " + o["real_error"],
                "expected": "the same table as with the recording generator"}
    if not o["real_equal_seed"]:
        return {"observable": "draw_patients(seed) twice", "actual": "different tables", "expected": "equal tables",
                "statement": "C16_seed_determinism"}
    if not o["real_equals_recording"]:
        return {"observable": "draw_patients(real Generator) vs inverse-CDF recording generator", "actual": "different tables",
                "expected": "equal tables", "statement": "Generator.choice = inverse CDF of one uniform per draw"}
    # (b) round trip
    if "dm_error" in o:
        return {"observable": "load_patient_data(drawn table, mapping=identity)", "actual": o["dm_error"], "expected": "loads"}
    def onehot(k, w):
        return [1 if j == k else 0 for j in range(w)]
    dm = o["dm"]
    if case["kind"] == "uni":
        exp = {"ipsi": [onehot(d[2], widths[0]) for d in draws]}
    elif case["kind"] == "bi":
        exp = {"ipsi": [onehot(d[2], widths[0]) for d in draws], "contra": [onehot(d[3], widths[1]) for d in draws]}
    else:
        e = [d for d in draws if d[2]]
        ne = [d for d in draws if not d[2]]
        exp = {"ext_ipsi": [onehot(d[3], widths[0]) for d in e], "ext_contra": [onehot(d[4], widths[1]) for d in e],
               "noext_ipsi": [onehot(d[3], widths[0]) for d in ne], "noext_contra": [onehot(d[4], widths[1]) for d in ne]}
        if "unknown_rows" in dm and dm["unknown_rows"] != 0:
            return {"observable": "unknown-extension cohort after loading a drawn table", "actual": dm["unknown_rows"], "expected": 0}
    for k, ev in exp.items():
        av = dm[k]
        if [list(r) for r in av] != ev and not (len(av) == 0 and len(ev) == 0):
            return {"observable": f"data_matrix() of {k} after load_patient_data(drawn table)", "actual": av, "expected": ev,
                    "statement": "C16_table_roundtrip: one-hot at the drawn observation"}
    return None


def compare_wrapped(case, obs, val):
    r = compare(case, obs, val)
    if r == "skip":
        _skipped.add(json.dumps(case, sort_keys=True))
        return None
    return r


_skipped: set = set()


def candidates(case):
    out = []
    if case["num"] > 1:
        for k in (1, case["num"] // 2, case["num"] - 1):
            if 1 <= k < case["num"]:
                c = copy.deepcopy(case)
                c["num"] = k
                out.append(c)
    base = dict(case)
    base.setdefault("patients", [])
    for c in shrink_uni_case(base):
        c.pop("patients", None)
        c.pop("table_mods", None)
        if len(c["dists"]) == len(case["dists"]):
            out.append(c)
    if len(case["dists"]) > 1:
        c = copy.deepcopy(case)
        k = list(c["dists"])[-1]
        del c["dists"][k]
        c["stage_dist"] = c["stage_dist"][:-1]
        if sum(c["stage_dist"]) == 0:
            c["stage_dist"] = [1.0]
        out.append(c)
    if case.get("boundary"):
        c = copy.deepcopy(case)
        c["boundary"] = None
        out.append(c)
    seen = set()
    uniq = []
    for c in out:
        k = json.dumps(c, sort_keys=True)
        if k not in seen and k != json.dumps(case, sort_keys=True):
            seen.add(k)
            uniq.append(c)
    return uniq


def _sig(c, mm):
    cls = {"uni": "Unilateral", "bi": "Bilateral", "ml": "Midline"}[c["kind"]]
    sig = {"class": cls, "call": "draw_patients", "observable": str(mm.get("observable")).split(" of a patient")[0]}
    if c["kind"] == "ml":
        sig["use_midext_evo"] = bool(c["flags"]["use_midext_evo"])
    return sig


def _strip(obs_case):
    return obs_case


def impl_fn_clean(case):
    r = impl_fn(case)
    r.pop("model", None)
    return r


def run(ctx: Ctx, a_ok: bool):
    ctx.cone = ["Sampling.choice (Generator.choice as inverse CDF)", "Sampling.draw_patients_uni / _bi / _ml",
                "Sampling.table_* (uni_row, bi_row, ml_row)", "Unilateral.state_dist_evo", "Unilateral.observation_matrix",
                "Midline.contra_state_dist_evo", "Midline.midext_evo", "Dist.pmf"]
    ctx.rule = ("random graphs (<=2 LNLs, binary/trinary) x {Unilateral, Bilateral (4 symmetry settings), Midline (use_mixing, "
                "lnl symmetry, use_midext_evo true/false, midext_prob incl. 0 and 1, a small quota use_central -> "
                "NotImplementedError)} x 1-2 modalities x 1-2 T-stages x stage_dist (normalised / not, zero weights) x "
                "cohorts of 5-20 patients x seeds; compared on the recorded uniforms; non-trivial iff the draws after the T-stage "
                "and time draws (extension / findings) produced >= 2 different outcomes in the cohort")
    ctx.notes.append("C16 is partial: independence / uniformity of numpy's bit generator is trusted, not modelled; "
                     "the tie is exact on the recorded stream of uniforms (no frequency test)")
    n = 60 if ctx.tier == "quick" else 500
    cases = [gen_case(ctx.rng, ctx.tier) for _ in range(n)]
    bad = run_standard(ctx, cases, impl_fn_clean, coq_expr, compare_wrapped, IMPORTS, candidates,
                       sig_fn=_sig,
                       call_fn=lambda c, mm: (f"build the {c['kind']} model from case; draw_patients({c['num']}, {c['stage_dist']}, "
                                              f"rng=RecordingRNG({c['seed']})); " + str(mm.get("observable"))),
                       broken="correspondence samplers vs /repo on the recorded uniforms", shard=6)
    for c in cases:
        key = json.dumps(c, sort_keys=True)
        st = _stash.get(key, {})
        log = st.get("log", [])
        kind = c["kind"] + ("" if c["kind"] != "ml" else f"-evo{int(c['flags']['use_midext_evo'])}-cen{int(c['flags']['use_central'])}")
        # non-triviality: at least two different index tuples among the patients' observation draws
        idxs = {tuple(call["idx"]) for call in log[1 + c["num"]:]} if log else set()
        ctx.count(c, len(idxs) >= 2, kind)
        if abs(sum(c["stage_dist"]) - 1.0) > 0:
            ctx.bump("stage_dist-renormalised")
        if c.get("boundary"):
            ctx.bump("boundary-" + c["boundary"])
        if key in _skipped:
            ctx.bump("skipped-near-breakpoint")
    ctx.extra["skipped_near_breakpoint"] = len(_skipped)


def replay(ctx: Ctx, path: str) -> int:
    data = json.loads(open(path).read())
    from ..core import correspondence
    bad = correspondence(ctx, [data["case"]], impl_fn_clean, coq_expr, compare_wrapped, IMPORTS, tag="replay")
    if bad:
        print("REPRODUCED", json.dumps(bad[0][1], default=str))
        return 1
    print("not reproduced")
    return 0
