"""C11: composite models keep their parts consistent with the declared sharing.

Histories (1-8 calls) of the composite's own API -- set_params / set_tumor_spread_params /
set_lnl_spread_params / set_spread_params / set_distribution_params (positional, keyword,
partial, surplus, global, side-specific and unknown names, mixed), set_modality /
del_modality / replace_all_modalities / clear_modalities, set_distribution /
del_distribution / replace_all_distributions, the max_time setter -- are run on a fresh
/repo object of every configuration (Bilateral x 4 symmetry settings, Midline use_mixing x
{central, midext_evo, neither} x lnl symmetry x marginalize_unknown, HPVUnilateral; binary
and trinary; random small graphs) and on the Coq model (Sync.run_ops on Params.v).

After EVERY call every leaf is read (get_params, modalities, distributions incl. pmf and
keywords, max_time; transition_matrix) and
  (B) compared with the model,
  (C) the invariant of the property is evaluated on the implementation alone:
      declared sharing of spread parameters, the mixing formula, equal modalities /
      distributions / max_time in all leaves, and "the values the composite's get_params
      reports are the ones each leaf's transition matrix is computed from" (a fresh
      Unilateral with the reported values must have the leaf's transition matrix).

Streams: main (valid values, calls in the domain of DESIGN.md section 6), recovery
(calls that raise half-way followed by a complete valid assignment: the invariant is
checked after the final call only), probe (child-prefixed distribution keywords: known
finding), HPVUnilateral (known finding D8).
"""
from __future__ import annotations

import copy
import json
import math

import numpy as np

from .. import gen, impl
from ..core import Ctx, HarnessError, jsonable, run_coq_cases, shrink
from ..core import q, s, lst, tup, nat, boolean
from . import c10

IMPORTS = "Base States Linalg Graph Transition Observation Dist Unilateral Models Params ParamsStatements Sync"
TOL = 1e-9
fv, cv, is_bad = c10.fv, c10.cv, c10.is_bad
KNOWN_HPV = {"class": "HPVUnilateral", "call": "set_params"}
PROBE_KW = "child-prefixed distribution parameter"


def close(a, e) -> bool:
    a, e = float(a), float(e)
    return not math.isnan(a) and abs(a - e) <= TOL * max(1.0, abs(e))


def configs():
    return [c for c in c10.all_configs() if c[0] != "Unilateral"]


# --------------------------------------------------------------------------
# implementation side
# --------------------------------------------------------------------------
def build(case):
    m = c10.build(case)
    return m


def leaves_of(case, m):
    return c10.leaves_of(case, m)


def make_dist(model, d):
    if "frozen" in d:
        return list(map(float, d["frozen"]))
    from lymph.diagnosis_times import Distribution
    return Distribution(impl.FAMILIES[d["fam"]], max_time=model.max_time, **{k: fv(v) for k, v in d["kw"].items()})


def do_op(m, op):
    """-> raised enum or None"""
    try:
        k = op["op"]
        if k == "set":
            getattr(m, op["m"])(*[fv(x) for x in op["args"]], **{n: fv(v) for n, v in op["kwargs"].items()})
        elif k == "set_modality":
            m.set_modality(op["name"], fv(op["spec"]), fv(op["sens"]), op["kind"])
        elif k == "del_modality":
            m.del_modality(op["name"])
        elif k == "replace_all_modalities":
            from lymph.modalities import Clinical, Pathological
            tri = m.is_trinary
            mods = {}
            for name, spec, sens, kind in op["mods"]:
                mods[name] = (Pathological if kind == "pathological" else Clinical)(fv(spec), fv(sens), tri)
            m.replace_all_modalities(mods)
        elif k == "clear_modalities":
            m.clear_modalities()
        elif k == "set_distribution":
            m.set_distribution(op["t"], make_dist(m, op["d"]))
        elif k == "del_distribution":
            m.del_distribution(op["t"])
        elif k == "replace_all_distributions":
            m.replace_all_distributions({t: make_dist(m, d) for t, d in op["dists"].items()})
        elif k == "clear_distributions":
            m.clear_distributions()
        elif k == "max_time":
            m.max_time = op["v"]
        else:
            raise HarnessError(f"unknown op {k}")
    except HarnessError:
        raise
    except Exception as e:  # noqa: BLE001
        return impl.err_enum(e)
    return None


def observe_leaf(leaf, with_tm: bool):
    from lymph.modalities import Pathological
    o = {"params": [[k, float(v)] for k, v in leaf.get_params(as_dict=True).items()]}
    o["mods"] = [[name, float(md.spec), float(md.sens), isinstance(md, Pathological)]
                 for name, md in leaf.get_all_modalities().items()]
    ds = []
    for t, d in leaf.get_all_distributions().items():
        try:
            pmf = [float(x) for x in d.pmf]
        except Exception as e:  # noqa: BLE001
            pmf = "raises " + impl.err_enum(e)
        kws = [[k, float(v)] for k, v in d.get_params(as_dict=True).items()] if d.is_updateable else []
        ds.append([t, bool(d.is_updateable), kws, pmf])
    o["dists"] = ds
    o["max_time"] = int(leaf.max_time)
    if with_tm:
        o["tm"] = np.asarray(leaf.transition_matrix(), dtype=float).tolist()
    return o


def canon_leaf(case, leaf, o, ref_names):
    """a leaf whose graph lists the LNLs in another order than the case's graph (contra_relist): parameters and the
    transition matrix are brought into the order of the case's graph (names and state labels, not positions, matter)"""
    if not case.get("contra_relist"):
        return o
    want = gen.lnls_of(case["graph"])
    have = list(leaf.graph.lnls)
    if have != want:
        # parameter order of the first leaf (same names): the relisted side creates its LNL arcs in another order
        rank = {n: k for k, n in enumerate(ref_names)}
        if sorted(rank) == sorted(p[0] for p in o["params"]):
            o["params"] = sorted(o["params"], key=lambda p: rank[p[0]])
    if "tm" in o and have != want and sorted(have) == sorted(want):
        base = case["graph"]["base"]
        import itertools
        idx = {s: k for k, s in enumerate(itertools.product(range(base), repeat=len(have)))}
        perm = [idx[tuple(s[want.index(l)] for l in have)] for s in itertools.product(range(base), repeat=len(want))]
        tm = np.asarray(o["tm"], dtype=float)
        o["tm"] = tm[np.ix_(perm, perm)].tolist()
    return o


def observe(case, m, with_tm=True):
    o = {}
    try:
        o["flat"] = [[k, float(v)] for k, v in m.get_params(as_dict=True).items()]
    except Exception as e:  # noqa: BLE001
        o["flat"] = None
        o["flat_err"] = impl.err_enum(e)
    o["leaves"] = []
    ref = None
    for name, leaf in leaves_of(case, m):
        ol = observe_leaf(leaf, with_tm)
        if ref is None:
            ref = [p[0] for p in ol["params"]]
        o["leaves"].append([name, canon_leaf(case, leaf, ol, ref)])
    if case["cls"] == "Midline":
        o["mixing"] = None if m.mixing_param is None else float(m.mixing_param)
        o["midext"] = float(m.midext_prob)
    return o


def impl_run(case):
    m = build(case)
    steps = []
    for op in case["ops"]:
        raised = do_op(m, op)
        steps.append({"raised": raised, "obs": observe(case, m) if op.get("observe", True) else None})
    return steps


# --------------------------------------------------------------------------
# model side
# --------------------------------------------------------------------------
def coq_darg(d) -> str:
    if "frozen" in d:
        return f"(DWeights {lst(q(w) for w in d['frozen'])})"
    return f"(DFam {nat(d['fam'])} {lst(tup(s(k), q(fv(v))) for k, v in d['kw'].items())})"


def coq_op(op) -> str:
    k = op["op"]
    if k == "set":
        a = lst(c10.coq_val(x) for x in op["args"])
        kw = lst(tup(c10.coq_path(n), c10.coq_val(v)) for n, v in op["kwargs"].items())
        return f"(CallSet {c10.SETTERS[op['m']]} {a} {kw})"
    if k == "set_modality":
        return (f"(CallCfg (CSetModality {s(op['name'])} {c10.coq_val(op['spec'])} {c10.coq_val(op['sens'])} "
                f"{boolean(op['kind'] == 'pathological')}))")
    if k == "del_modality":
        return f"(CallCfg (CDelModality {s(op['name'])}))"
    if k == "replace_all_modalities":
        items = lst(tup(s(n), tup(c10.coq_val(sp), c10.coq_val(sn), boolean(kd == 'pathological'))) for n, sp, sn, kd in op["mods"])
        return f"(CallCfg (CReplaceModalities {items}))"
    if k == "clear_modalities":
        return "(CallCfg CClearModalities)"
    if k == "set_distribution":
        return f"(CallCfg (CSetDistribution {s(op['t'])} {coq_darg(op['d'])}))"
    if k == "del_distribution":
        return f"(CallCfg (CDelDistribution {s(op['t'])}))"
    if k == "replace_all_distributions":
        return f"(CallCfg (CReplaceDistributions {lst(tup(s(t), coq_darg(d)) for t, d in op['dists'].items())}))"
    if k == "clear_distributions":
        return "(CallCfg CClearDistributions)"
    if k == "max_time":
        v = int(op["v"])
        return f"(CallCfg (CSetMaxTime ({v})%Z))"
    raise HarnessError(f"unknown op {k}")


def coq_exprs(case):
    ops = lst(coq_op(o) for o in case["ops"])
    model = c10.coq_model(case)
    return [f"run_ops {model} {ops}", f"out_transitions (final_model {model} {ops})"]


def _frac(nd):
    from fractions import Fraction
    return Fraction(nd[0], nd[1])


def _opt(v):
    if v is None:
        return None
    assert isinstance(v, tuple) and v[0] == "Some", v
    return v[1]


def model_steps(val):
    steps = []
    for ok, st in val:
        flat, _nested, leaves, (mixing, midext), leafcfg = st
        st = {"ok": bool(ok),
              "flat": None if _opt(flat) is None else c10._items(_opt(flat)),
              "mixing": None if _opt(mixing) is None else _frac(_opt(mixing)),
              "midext": _frac(midext), "leaves": []}
        for (p, items), (p2, (mods, dists, maxt)) in zip(leaves, leafcfg):
            assert p == p2
            st["leaves"].append(["_".join(p), {
                "params": c10._items(items),
                "mods": [[name, _frac(sp), _frac(sn), bool(path)] for (name, sp, sn, path) in mods],
                "dists": [[t, bool(upd), [[k, _frac(v)] for k, v in kws], None if _opt(pmf) is None else [_frac(x) for x in _opt(pmf)]]
                          for t, (upd, kws, pmf) in dists],
                "max_time": int(maxt)}])
        steps.append(st)
    return steps


def cmp_leaf(name, act, exp, frozen_stale_ok=False):
    d = c10.cmp_items(f"{name}.get_params()", act["params"], exp["params"])
    if d:
        return d
    am, em = act["mods"], exp["mods"]
    if [x[0] for x in am] != [x[0] for x in em]:
        return {"observable": f"{name}.get_all_modalities() (names / order)", "actual": [x[0] for x in am], "expected": [x[0] for x in em]}
    for a, e in zip(am, em):
        if not (close(a[1], e[1]) and close(a[2], e[2]) and a[3] == e[3]):
            return {"observable": f"{name}.get_all_modalities()[{a[0]}] (spec, sens, pathological)", "actual": a[1:],
                    "expected": [float(e[1]), float(e[2]), e[3]]}
    ad, ed = act["dists"], exp["dists"]
    if [x[0] for x in ad] != [x[0] for x in ed]:
        return {"observable": f"{name}.get_all_distributions() (T-stages / order)", "actual": [x[0] for x in ad], "expected": [x[0] for x in ed]}
    for a, e in zip(ad, ed):
        if a[1] != e[1]:
            return {"observable": f"{name} distribution {a[0]} is_updateable", "actual": a[1], "expected": e[1]}
        if [k for k, _ in a[2]] != [k for k, _ in e[2]] or not all(close(x, y) for (_, x), (_, y) in zip(a[2], e[2])):
            return {"observable": f"{name} distribution {a[0]} keywords", "actual": a[2], "expected": [[k, float(v)] for k, v in e[2]]}
        if isinstance(a[3], str) or e[3] is None:
            if not (isinstance(a[3], str) and e[3] is None):
                return {"observable": f"{name} distribution {a[0]} pmf", "actual": a[3], "expected": "raises" if e[3] is None else [float(x) for x in e[3]]}
        elif len(a[3]) != len(e[3]) or not all(close(x, y) for x, y in zip(a[3], e[3])):
            return {"observable": f"{name} distribution {a[0]} pmf", "actual": a[3], "expected": [float(x) for x in e[3]]}
    if act["max_time"] != exp["max_time"]:
        return {"observable": f"{name}.max_time", "actual": act["max_time"], "expected": exp["max_time"]}
    return None


def compare(case, steps, vals):
    ms = model_steps(vals[0])
    if len(ms) != len(steps):
        raise HarnessError("model returned a different number of steps")
    for k, (st, mo) in enumerate(zip(steps, ms)):
        op = case["ops"][k]
        where = {"step": k, "call": op.get("m", op["op"])}
        if (st["raised"] is None) != mo["ok"]:
            return {**where, "observable": f"{where['call']} raises", "actual": st["raised"] or "returned",
                    "expected": "returns" if mo["ok"] else "raises"}
        o = st["obs"]
        if o is None:
            continue
        d = c10.cmp_items("get_params(as_dict=True)", o["flat"], mo["flat"])
        if d:
            return {**where, **d}
        if [n for n, _ in o["leaves"]] != [n for n, _ in mo["leaves"]]:
            return {**where, "observable": "sub-models", "actual": [n for n, _ in o["leaves"]], "expected": [n for n, _ in mo["leaves"]]}
        for (n, act), (_, exp) in zip(o["leaves"], mo["leaves"]):
            d = cmp_leaf(n, act, exp)
            if d:
                return {**where, **d}
        if case["cls"] == "Midline":
            if (o["mixing"] is None) != (mo["mixing"] is None) or (o["mixing"] is not None and not close(o["mixing"], mo["mixing"])):
                return {**where, "observable": "mixing_param", "actual": o["mixing"], "expected": None if mo["mixing"] is None else float(mo["mixing"])}
            if not close(o["midext"], mo["midext"]):
                return {**where, "observable": "midext_prob", "actual": o["midext"], "expected": float(mo["midext"])}
    # transition matrices of every leaf after the whole history
    last = next((st["obs"] for st in reversed(steps) if st["obs"] is not None), None)
    if last is not None:
        tms = {"_".join(p): [[_frac(x) for x in row] for row in mat] for p, mat in vals[1]}
        from ..core import first_diff
        for n, act in last["leaves"]:
            fd = first_diff(act["tm"], tms[n])
            if fd:
                return {"step": len(steps) - 1, "call": "transition_matrix", "observable": f"{n}.transition_matrix()", **fd}
    return None


def corr_failing(ctx, cases, tag):
    obs = []
    for c in cases:
        try:
            obs.append(("ok", impl_run(c)))
        except HarnessError:
            raise
        except Exception as e:  # noqa: BLE001
            obs.append(("err", impl.err_enum(e), repr(e)[:300]))
    exprs = []
    for c in cases:
        exprs += coq_exprs(c)
    vals = run_coq_cases(ctx.work / tag, exprs, IMPORTS, shard=30)
    out = []
    for i, (c, o) in enumerate(zip(cases, obs)):
        if o[0] == "err":
            out.append({"observable": "building the model / observing it", "actual": f"raised {o[1]}: {o[2]}",
                        "expected": "no exception", "step": -1, "call": "constructor"})
        else:
            out.append(compare(c, o[1], vals[2 * i:2 * i + 2]))
    return out


# --------------------------------------------------------------------------
# the invariant, evaluated on the implementation alone
# --------------------------------------------------------------------------
def _split_TL(case, params):
    """leaf get_params items -> (tumour items, LNL items) by the names of the graph"""
    T, L = c10._edge_names(case["graph"])
    d = dict(params)
    return [[n, d[n]] for n in T if n in d], [[n, d[n]] for n in L if n in d]


def _eq_items(a, b):
    return [k for k, _ in a] == [k for k, _ in b] and all(close(x, y) for (_, x), (_, y) in zip(a, b))


def _cfg_of(leaf_obs):
    return leaf_obs["mods"], leaf_obs["dists"], leaf_obs["max_time"]


def _cfg_diff(a, b):
    """first difference of the configurations of two leaves, or None"""
    if [x[0] for x in a["mods"]] != [x[0] for x in b["mods"]]:
        return "modality names"
    for x, y in zip(a["mods"], b["mods"]):
        if not (close(x[1], y[1]) and close(x[2], y[2]) and x[3] == y[3]):
            return f"modality {x[0]}"
    if [x[0] for x in a["dists"]] != [x[0] for x in b["dists"]]:
        return "distribution T-stages"
    for x, y in zip(a["dists"], b["dists"]):
        if x[1] != y[1] or [k for k, _ in x[2]] != [k for k, _ in y[2]] or not all(close(u, v) for (_, u), (_, v) in zip(x[2], y[2])):
            return f"distribution {x[0]} keywords"
        if isinstance(x[3], str) or isinstance(y[3], str):
            if x[3] != y[3]:
                return f"distribution {x[0]} pmf"
        elif len(x[3]) != len(y[3]) or not all(close(u, v) for u, v in zip(x[3], y[3])):
            return f"distribution {x[0]} pmf"
    if a["max_time"] != b["max_time"]:
        return "max_time"
    return None


def expected_leaf_spread(case, flat, leaf_name, mixing):
    """the spread parameters the composite's get_params declares for a leaf (None: exempt)"""
    T, L = c10._edge_names(case["graph"])
    cls, cfg = case["cls"], case["cfg"]
    out = {}
    if cls == "Bilateral":
        side = leaf_name
        for n in T:
            out[n] = flat[n] if cfg["symT"] else flat[f"{side}_{n}"]
        for n in L:
            out[n] = flat[n] if cfg["symL"] else flat[f"{side}_{n}"]
        return out
    if cls == "Midline":
        sub, side = leaf_name.split("_")
        if sub == "unknown":
            return None
        for n in L:
            out[n] = flat[n] if cfg["symL"] else flat[f"{side}_{n}"]
        for n in T:
            if side == "ipsi" or sub == "central":
                out[n] = flat[f"ipsi_{n}"]
            elif cfg["use_mixing"]:
                c = flat[f"contra_{n}"]
                out[n] = c if sub == "noext" else mixing * flat[f"ipsi_{n}"] + (1.0 - mixing) * c
            else:
                out[n] = flat[f"{sub}_contra_{n}"]
        return out
    return None


_FRESH = {}
STATS = {"states_checked": 0, "recovery_final_states_checked": 0, "recovery_calls_that_raised": 0, "main_calls_that_raised": 0}


def fresh_tm(case, spread):
    from lymph import models
    key = json.dumps(case["graph"], sort_keys=True)
    if key not in _FRESH:
        g = gen.graph_dict(case["graph"])
        _FRESH[key] = (models.Unilateral.trinary if case["graph"]["base"] == 3 else models.Unilateral.binary)(g)
    u = _FRESH[key]
    u.set_params(**spread)
    return np.asarray(u.transition_matrix(), dtype=float)


def invariant(case, obs):
    """-> list of (relation, detail) that fail in one observed state"""
    fails = []
    cls, cfg = case["cls"], case["cfg"]
    leaves = dict(obs["leaves"])
    names = [n for n, _ in obs["leaves"]]
    TL = {n: _split_TL(case, leaves[n]["params"]) for n in names}

    def need_T(a, b):
        if not _eq_items(TL[a][0], TL[b][0]):
            fails.append((f"tumour spread of {a} != {b}", {a: TL[a][0], b: TL[b][0]}))

    def need_L(a, b):
        if not _eq_items(TL[a][1], TL[b][1]):
            fails.append((f"LNL spread of {a} != {b}", {a: TL[a][1], b: TL[b][1]}))

    if cls == "Bilateral":
        if cfg["symT"]:
            need_T("contra", "ipsi")
        if cfg["symL"]:
            need_L("contra", "ipsi")
    elif cls == "Midline":
        ipsi = ["noext_ipsi"] + (["central_ipsi"] if "central_ipsi" in leaves else [])
        contra = ["noext_contra"] + (["central_contra"] if "central_contra" in leaves else [])
        for n in ipsi:
            need_T(n, "ext_ipsi")
            need_L(n, "ext_ipsi")
        if "central_contra" in leaves:
            need_T("central_contra", "ext_ipsi")
        for n in contra:
            need_L(n, "ext_contra")
        if cfg["symL"]:
            need_L("ext_contra", "ext_ipsi")
        if cfg["use_mixing"]:
            mix = obs["mixing"]
            exp = [[k, mix * a + (1.0 - mix) * c] for (k, a), (_, c) in zip(TL["ext_ipsi"][0], TL["noext_contra"][0])]
            if not _eq_items(TL["ext_contra"][0], exp):
                fails.append(("ext.contra tumour spread != mixing*ipsi + (1-mixing)*noext.contra",
                              {"ext_contra": TL["ext_contra"][0], "expected": exp, "mixing": mix}))
    elif cls == "HPVUnilateral":
        need_L("nohpv", "hpv")
    # modalities, distributions, max_time: every leaf like the first one
    first = names[0]
    for n in names[1:]:
        d = _cfg_diff(leaves[n], leaves[first])
        if d:
            fails.append((f"leaves differ in {d}: {n} vs {first}", {n: _cfg_of(leaves[n]), first: _cfg_of(leaves[first])}))
    # reported parameters are the ones the leaves compute with
    if obs["flat"] is not None and cls in ("Bilateral", "Midline"):
        flat = dict(obs["flat"])
        for n in names:
            try:
                exp = expected_leaf_spread(case, flat, n, obs.get("mixing"))
            except KeyError as e:
                fails.append((f"get_params lacks the name declared for {n}", {"missing": str(e), "reported": list(flat)}))
                continue
            if exp is None:
                continue
            got = dict(TL[n][0] + TL[n][1])
            bad = [k for k in exp if not close(got.get(k, float("nan")), exp[k])]
            if bad:
                fails.append((f"get_params reports values {n} does not hold", {"names": bad, "reported": {k: exp[k] for k in bad},
                                                                              "leaf": {k: got.get(k) for k in bad}}))
            tm = fresh_tm(case, exp)
            act = np.asarray(leaves[n]["tm"], dtype=float)
            if act.shape != tm.shape or not np.all(np.abs(act - tm) <= TOL):
                fails.append((f"{n}.transition_matrix() is not computed from the reported parameters", {"leaf": n}))
        # distribution parameters reported = the ones of every leaf
        for t, upd, kws, _pmf in leaves[first]["dists"]:
            for k, v in kws:
                if f"{t}_{k}" in flat and not close(flat[f"{t}_{k}"], v):
                    fails.append(("get_params reports a distribution parameter the first leaf does not hold", {"name": f"{t}_{k}"}))
    return fails


def relations(case):
    """-> list of (signature, detail): the invariant after every observed call that returned normally,
    in histories in which every call so far returned normally (recovery stream: after the last call only)"""
    out = []
    m = build(case)
    cls = case["cls"]
    all_ok = True
    nops = len(case["ops"])
    for k, op in enumerate(case["ops"]):
        raised = do_op(m, op)
        if raised is not None:
            all_ok = False
            STATS["recovery_calls_that_raised" if case["stream"] == "recovery" else "main_calls_that_raised"] += 1
            if case["stream"] in ("main", "probe", "hpv"):
                # calls of these streams are generated to return normally
                out.append(({"class": cls, "config": c10.config_text(case), "call": op.get("m", op["op"]),
                             "relation": "a call with valid arguments raises " + raised, "stream": case["stream"]},
                            {"step": k, "op": op}))
                break
            continue
        if not op.get("observe", True):
            continue
        if case["stream"] == "recovery":
            if k != nops - 1:
                continue
        elif not all_ok:
            break
        obs = observe(case, m)
        STATS["states_checked"] += 1
        if case["stream"] == "recovery":
            STATS["recovery_final_states_checked"] += 1
        for rel, detail in invariant(case, obs):
            sig = {"class": cls, "config": c10.config_text(case), "call": op.get("m", op["op"]), "relation": rel,
                   "stream": case["stream"]}
            if cls == "HPVUnilateral":
                sig["call"] = "set_params"            # D8: one signature for the whole class
                sig["last_call"] = op.get("m", op["op"])
            if case["stream"] == "probe":
                sig["call"] = "set_params"
                sig["kwarg"] = PROBE_KW
            out.append((sig, {"step": k, "op": op, **detail}))
        if out:
            break
    return out


# --------------------------------------------------------------------------
# generation
# --------------------------------------------------------------------------
CHILDREN = {"Bilateral": ["ipsi", "contra"], "Midline": ["ext", "noext", "central", "unknown"], "HPVUnilateral": ["hpv", "nohpv"]}


def state_names(case, dists):
    proto = dict(case, dists=dists)
    return c10.get_names(proto), c10.set_names(proto)


def gen_setter(rng, case, dists, valid=True):
    """one parameter-setter call with valid values, in the domain of section 6"""
    gn, sn = state_names(case, dists)
    T, L = c10._edge_names(case["graph"])
    D = [f"{t}_{k}" for t, d in dists.items() if "fam" in d for k in d["kw"]]
    cls, cfg = case["cls"], case["cfg"]
    tri = case["graph"]["base"] == 3
    vv = lambda nm: c10.valid_value(rng, nm)  # noqa: E731
    kind = rng.choice(["positional", "partial", "surplus", "keyword", "kw_subset", "kw_subset", "mixed", "global", "side", "arc", "arc",
                       "unknown", "sub", "sub", "sub", "dist", "side_lnl", "side_lnl"])
    if kind == "side_lnl":
        # directed (R5-C11): a side-prefixed keyword of an LNL-to-LNL arc through the composite's own setters; with symmetric
        # LNL spread it must not give the sides different values (Bilateral: both sides follow; Midline: ignored)
        pres = {"Bilateral": ["ipsi_", "contra_"], "Midline": ["ipsi_", "contra_", "noext_contra_", "ext_contra_"]}.get(cls)
        if not pres or not L:
            kind = "side"
        else:
            kw = {rng.choice(pres[:2] if rng.random() < 0.7 else pres) + l: vv(l) for l in rng.sample(L, rng.randint(1, min(2, len(L))))}
            return {"op": "set", "m": rng.choice(["set_params", "set_spread_params", "set_lnl_spread_params"]), "args": [], "kwargs": kw,
                    "style": "side"}
    if kind == "arc" and cls != "Unilateral":
        # un-prefixed arc-level names ('TtoII_spread', 'IItoIII_micro', 'II_growth') only: in a composite they address
        # that arc on every side / in every sub-model, and derived values (the Midline mixture) must follow
        tails = T + L
        kw = {t: vv(t) for t in rng.sample(tails, rng.randint(1, min(3, len(tails))))}
        return {"op": "set", "m": rng.choice(["set_params", "set_spread_params", "set_tumor_spread_params"]), "args": [], "kwargs": kw,
                "style": kind}
    if kind == "positional":
        return {"op": "set", "m": "set_params", "args": [vv(n) for n in sn], "kwargs": {}, "style": kind}
    if kind == "partial":
        k = rng.randint(0, max(0, len(sn) - 1))
        return {"op": "set", "m": "set_params", "args": [vv(n) for n in sn][:k], "kwargs": {}, "style": kind}
    if kind == "surplus":
        return {"op": "set", "m": "set_params", "args": [vv(n) for n in sn] + [gen.gen_value(rng) for _ in range(rng.randint(1, 3))],
                "kwargs": {}, "style": kind}
    if kind == "keyword":
        names = gn[:]
        rng.shuffle(names)
        return {"op": "set", "m": "set_params", "args": [], "kwargs": {n: vv(n) for n in names}, "style": kind}
    if kind == "kw_subset":
        names = [n for n in gn if rng.random() < 0.4] or gn[:1]
        return {"op": "set", "m": "set_params", "args": [], "kwargs": {n: vv(n) for n in names}, "style": kind}
    if kind == "mixed":
        k = rng.randint(0, len(sn))
        names = [n for n in gn if rng.random() < 0.3]
        return {"op": "set", "m": "set_params", "args": [vv(n) for n in sn][:k], "kwargs": {n: vv(n) for n in names}, "style": kind}
    if kind == "global":
        globs = ["spread"] + (["growth", "micro"] if tri else []) + sorted({k for t, d in dists.items() if "fam" in d for k in d["kw"]})
        kw = {g: vv("x_" + g) for g in rng.sample(globs, rng.randint(1, min(2, len(globs))))}
        for n in gn:
            if rng.random() < 0.2:
                kw[n] = vv(n)
        items = list(kw.items())
        rng.shuffle(items)
        return {"op": "set", "m": rng.choice(["set_params", "set_params", "set_spread_params"]), "args": [], "kwargs": dict(items), "style": kind}
    if kind == "side":
        # side-specific names of SPREAD parameters only (a child-prefixed distribution keyword is the probe stream)
        pres = {"Bilateral": ["ipsi_", "contra_"], "Midline": ["ipsi_", "contra_", "noext_contra_", "ext_contra_"],
                "HPVUnilateral": ["hpv_", "nohpv_", "HPV_", "noHPV_"]}[cls]
        kw = {}
        for _ in range(rng.randint(1, 3)):
            tail = rng.choice(["spread"] + (["growth", "micro"] if tri else []) + T + L)
            kw[rng.choice(pres) + tail] = gen.gen_value(rng)
        a = [vv(n) for n in sn][:rng.randint(0, len(sn))] if rng.random() < 0.3 else []
        return {"op": "set", "m": rng.choice(["set_params", "set_spread_params", "set_tumor_spread_params", "set_lnl_spread_params"]),
                "args": a if True else [], "kwargs": kw, "style": kind}
    if kind == "unknown":
        kw = {n: vv(n) for n in gn if rng.random() < 0.3}
        for u in rng.sample(["AtoB_spread", "foo", "XtoY", "nothing_q", "spreads", "TtoII", "late_q", "ipsi_foo_spread", "ext_foo"],
                            rng.randint(1, 3)):
            kw[u] = gen.gen_value(rng)
        return {"op": "set", "m": "set_params", "args": [], "kwargs": kw, "style": kind}
    if kind == "dist":
        a = [vv(n) for n in D][:rng.randint(0, len(D))] if rng.random() < 0.5 else []
        kw = {n: vv(n) for n in D if rng.random() < 0.4}
        return {"op": "set", "m": "set_distribution_params", "args": a, "kwargs": kw, "style": kind}
    # sub-setters: tumour / LNL / spread, positional prefix and/or keywords
    meth = rng.choice(["set_tumor_spread_params", "set_lnl_spread_params", "set_spread_params"])
    spread_sn = [n for n in sn if n not in D and n != "midext_prob"]
    if meth == "set_tumor_spread_params":
        order = [n for n in spread_sn if n == "mixing" or any(n == t or n.endswith("_" + t) for t in T)]
    elif meth == "set_lnl_spread_params":
        order = [n for n in spread_sn if any(n == l or n.endswith("_" + l) for l in L)]
    else:
        order = spread_sn
    r = rng.random()
    a = [vv(n) for n in order][:rng.randint(0, len(order))] if r < 0.6 else []
    if r < 0.15:
        a = a + [gen.gen_value(rng) for _ in range(rng.randint(1, 2))]      # surplus flows on: must stay valid, so only in [0,1]
    kw = {n: vv(n) for n in order if rng.random() < 0.3} if r >= 0.4 else {}
    return {"op": "set", "m": meth, "args": a, "kwargs": kw, "style": "sub"}


def gen_cfg_op(rng, case, state):
    """one modality / distribution / max_time operation valid in the current (tracked) state; updates the state"""
    mods, dists = state["mods"], state["dists"]
    kinds = ["set_modality", "set_modality", "set_distribution", "set_distribution", "max_time", "replace_all_modalities",
             "replace_all_distributions"]
    if mods:
        kinds += ["del_modality", "clear_modalities"]
    if dists:
        kinds += ["del_distribution"]
    k = rng.choice(kinds)
    sv = lambda: rng.choice([1.0, 0.5, 0.0] + [rng.randint(8, 16) / 16.0] * 5)  # noqa: E731
    if k == "set_modality":
        name = rng.choice(gen.MOD_NAMES)
        op = {"op": k, "name": name, "spec": sv(), "sens": sv(), "kind": rng.choice(["clinical", "pathological"])}
        mods[name] = True
        return [op]
    if k == "del_modality":
        name = rng.choice(sorted(mods))
        del mods[name]
        return [{"op": k, "name": name}]
    if k == "clear_modalities":
        mods.clear()
        return [{"op": k}]
    if k == "replace_all_modalities":
        names = rng.sample(gen.MOD_NAMES, rng.randint(0, 3))
        mods.clear()
        mods.update({n: True for n in names})
        return [{"op": k, "mods": [[n, sv(), sv(), rng.choice(["clinical", "pathological"])] for n in names]}]
    if k == "set_distribution":
        t = rng.choice(gen.TSTAGES)
        d = gen.gen_dist(rng, state["max_time"])
        dists[t] = d
        return [{"op": k, "t": t, "d": d}]
    if k == "del_distribution":
        t = rng.choice(sorted(dists))
        del dists[t]
        return [{"op": k, "t": t}]
    if k == "replace_all_distributions":
        new = {t: gen.gen_dist(rng, state["max_time"]) for t in rng.sample(gen.TSTAGES, rng.randint(0, 2))}
        dists.clear()
        dists.update(new)
        return [{"op": k, "dists": copy.deepcopy(new)}]
    # max_time: frozen distributions are re-set afterwards (section 6); the state in between is not observed
    v = rng.randint(1, 4)
    state["max_time"] = v
    frozen = [t for t, d in dists.items() if "frozen" in d]
    ops = [{"op": "max_time", "v": v, "observe": not frozen}]
    for i, t in enumerate(frozen):
        w = [rng.choice([0, 1, 2, 3, 5]) for _ in range(v + 1)]
        if sum(w) == 0:
            w[0] = 1
        dists[t] = {"frozen": w}
        ops.append({"op": "set_distribution", "t": t, "d": {"frozen": w}, "observe": i == len(frozen) - 1})
    return ops


def new_case(rng, cls, cfg, stream):
    base = rng.choice([2, 2, 3])
    g = c10.gen_graph_for(rng, cls, base, 3 if base == 2 else 2)
    mt = rng.randint(1, 4)
    return {"cls": cls, "cfg": cfg, "graph": g, "max_time": mt, "dists": c10.gen_dists(rng, mt, p_none=0.3), "ops": [],
            "stream": stream}


def gen_main(rng, cls, cfg, stream="main"):
    case = new_case(rng, cls, cfg, stream)
    state = {"mods": {}, "dists": copy.deepcopy(case["dists"]), "max_time": case["max_time"]}
    if cls == "Bilateral" and cfg.get("symL") and len(gen.lnls_of(case["graph"])) >= 2 and rng.random() < 0.4:
        case["contra_relist"] = True
    n = rng.randint(1, 8)
    while len([o for o in case["ops"] if o.get("observe", True)]) < n:
        if rng.random() < 0.62:
            case["ops"].append(gen_setter(rng, case, state["dists"]))
        else:
            case["ops"] += gen_cfg_op(rng, case, state)
    return case


def gen_probe(rng, cls, cfg):
    """a child-prefixed distribution keyword (known finding): Composite.set_distribution_params gives it to one child only"""
    case = new_case(rng, cls, cfg, "probe")
    case["dists"] = {"late": {"fam": 0, "kw": {"p": 0.5}}}
    if rng.random() < 0.5:
        case["dists"]["early"] = {"frozen": [1] * (case["max_time"] + 1)}
    kids = CHILDREN[cls][:]
    if cls == "Midline":
        kids = ["ext", "noext"] + (["central"] if cfg["mode"] == "central" else []) + (["unknown"] if cfg["marg"] else [])
        kids += ["ext_contra", "noext_ipsi"]
    child = rng.choice(kids[1:] if rng.random() < 0.7 else kids)
    name = rng.choice([f"{child}_late_p", f"{child}_p"])
    if rng.random() < 0.5:
        case["ops"].append(gen_setter(rng, case, case["dists"]))
    case["ops"].append({"op": "set", "m": rng.choice(["set_params", "set_distribution_params"]), "args": [],
                        "kwargs": {name: rng.choice([0.25, 0.75, 0.125])}, "style": "probe"})
    return case


def full_assignment(rng, case, dists):
    gn, sn = state_names(case, dists)
    if rng.random() < 0.5:
        return {"op": "set", "m": "set_params", "args": [], "kwargs": {n: c10.valid_value(rng, n) for n in gn}, "style": "full-keyword"}
    return {"op": "set", "m": "set_params", "args": [c10.valid_value(rng, n) for n in sn], "kwargs": {}, "style": "full-positional"}


def gen_recovery(rng, cls, cfg):
    """calls that raise half-way (an invalid value in the middle of an otherwise valid call), then one complete
    valid assignment: the invariant must hold again"""
    case = new_case(rng, cls, cfg, "recovery")
    dists = case["dists"]
    gn, sn = state_names(case, dists)
    if rng.random() < 0.6:
        case["ops"].append(full_assignment(rng, case, dists))
    for _ in range(rng.randint(1, 3)):
        a = [c10.valid_value(rng, n) for n in sn]
        j = rng.randrange(len(a))
        if rng.random() < 0.6:
            a[j] = cv(rng.choice(c10.BAD_VALUES))
            case["ops"].append({"op": "set", "m": rng.choice(["set_params", "set_params", "set_spread_params", "set_lnl_spread_params",
                                                              "set_tumor_spread_params"]),
                                "args": a, "kwargs": {}, "style": "halfway"})
        else:
            kw = dict(zip(gn, [c10.valid_value(rng, n) for n in gn]))
            kw[rng.choice(gn)] = cv(rng.choice(c10.BAD_VALUES))
            case["ops"].append({"op": "set", "m": "set_params", "args": [], "kwargs": kw, "style": "halfway"})
        if rng.random() < 0.3:
            case["ops"].append(gen_setter(rng, case, dists))
    case["ops"].append(full_assignment(rng, case, dists))
    return case


# --------------------------------------------------------------------------
# shrinking, reporting
# --------------------------------------------------------------------------
def candidates(case):
    out = []
    ops = case["ops"]
    for k in range(len(ops)):
        if len(ops) < 2:
            break
        c = copy.deepcopy(case)
        del c["ops"][k]
        out.append(c)
    for k, op in enumerate(ops):          # coarse first: half of the keywords / of the positional values
        if op["op"] != "set":
            continue
        names = list(op["kwargs"])
        if len(names) >= 4:
            for part in (names[:len(names) // 2], names[len(names) // 2:]):
                c = copy.deepcopy(case)
                for name in part:
                    del c["ops"][k]["kwargs"][name]
                out.append(c)
        if len(op["args"]) >= 4:
            c = copy.deepcopy(case)
            c["ops"][k]["args"] = op["args"][:len(op["args"]) // 2]
            out.append(c)
    for k, op in enumerate(ops):
        if op["op"] != "set":
            continue
        for name in list(op["kwargs"]):
            c = copy.deepcopy(case)
            del c["ops"][k]["kwargs"][name]
            out.append(c)
        if op["args"]:
            c = copy.deepcopy(case)
            c["ops"][k]["args"] = op["args"][:-1]
            out.append(c)
    for k, op in enumerate(ops):
        if op["op"] != "set":
            continue
        for i, x in enumerate(op["args"]):
            if not is_bad(x) and fv(x) not in (0.5, 0.0, 1.0):
                c = copy.deepcopy(case)
                c["ops"][k]["args"][i] = 0.5
                out.append(c)
        for name, x in op["kwargs"].items():
            if not is_bad(x) and fv(x) not in (0.5, 0.0, 1.0) and name.split("_")[-1] not in ("a", "b"):
                c = copy.deepcopy(case)
                c["ops"][k]["kwargs"][name] = 0.5
                out.append(c)
    return out


def call_text(case):
    def one(op):
        if op["op"] == "set":
            return f"{op['m']}(*{op['args']}, **{op['kwargs']})"
        rest = {k: v for k, v in op.items() if k not in ("op", "observe")}
        return f"{op['op']}({rest})"
    return f"{case['cls']}(graph, {case['cfg']}, max_time={case['max_time']}, dists={case['dists']}); " + "; ".join(one(o) for o in case["ops"])


def safe_relations(case):
    try:
        return relations(case)
    except HarnessError:
        raise
    except Exception as e:  # noqa: BLE001
        return [({"class": case["cls"], "config": c10.config_text(case), "call": "-", "stream": case["stream"],
                  "relation": "evaluating the invariant raised " + impl.err_enum(e)}, {"error": repr(e)[:300]})]


def report_rel(ctx, case, sig, detail):
    def key(sg):
        return (sg["class"], sg.get("relation", "").split(":")[0].split(" of ")[0], sg["stream"])

    def still(cs):
        return [any(key(sg) == key(sig) for sg, _ in safe_relations(c)) for c in cs]
    small = shrink(ctx, case, candidates, still, budget_s=10.0)
    found = [(sg, d) for sg, d in safe_relations(small) if key(sg) == key(sig)]
    sg, det = found[0] if found else (sig, detail)
    ctx.violation(f"{sg['relation']} ({sg['class']}, {sg['config']}, after {sg['call']}, stream {sg['stream']})",
                  {"case": small, "detail": det, "names": c10.get_names(small), "call": call_text(small),
                   "broken": "C11 invariant evaluated on /repo"}, sg)


def report_corr(ctx, case, mm):
    def still(cs):
        return [m is not None for m in corr_failing(ctx, cs, "shrink")]
    small = shrink(ctx, case, candidates, still, budget_s=25.0)
    mm2 = corr_failing(ctx, [small], "final")[0]
    if mm2 is None:
        small, mm2 = case, mm
    ctx.violation(f"{mm2.get('observable')}: implementation differs from the Coq model (Sync.run_ops)",
                  {"case": small, "mismatch": mm2, "call": call_text(small),
                   "broken": "correspondence Sync.run_ops / Params.v vs /repo (C11 theorems are about this model)"},
                  {"class": small["cls"], "config": c10.config_text(small), "call": "correspondence:" + str(mm2.get("call")),
                   "observable": str(mm2.get("observable")), "stream": small["stream"]})


def nontrivial(case):
    vals = [fv(x) for o in case["ops"] if o["op"] == "set" for x in list(o["args"]) + list(o["kwargs"].values())]
    arcs = sum(len(cs) for _k, _n, cs in case["graph"]["entries"])
    return any(0.0 < x < 1.0 for x in vals if not is_bad(x)) and arcs >= 2


# --------------------------------------------------------------------------
def run(ctx: Ctx, a_ok: bool):
    ctx.cone = ["Params.b_set_*/m_set_*/h_set_* (parameter plumbing of the composites, incl. synchronize_params, mixing)",
                "Params.u_set_* / edge_set_params / dist_set_params (leaf setters)",
                "Sync.leaf_cfg / b_cfg / m_cfg / h_cfg (modalities, distributions, max_time forwarded to children)",
                "Params.get_params of every class (reported values)", "Transition.generate_transition (leaf transition matrices, final state)",
                "Dist.fam_weights / mk_frozen / pmf"]
    ctx.rule = ("model class x configuration (Bilateral 4 symmetry settings; Midline use_mixing x {central, midext_evo, neither} x "
                "lnl symmetry x marginalize_unknown; HPVUnilateral) x random graph (1-3 LNLs binary, 1-2 trinary) x initial "
                "distributions x a history of 1-8 composite API calls (parameter setters positional / partial / surplus / keyword / "
                "subset / mixed / global / side-specific / unknown names / sub-setters / set_distribution_params; set/del/replace/clear "
                "modalities; set/del/replace distributions; max_time) with valid values from {0,1} U k/16 U short dyadics; "
                "recovery stream: 1-3 calls raising half-way, then a complete valid assignment; probe stream: one child-prefixed "
                "distribution keyword; non-trivial iff some parameter value lies strictly inside (0,1) and the graph has >= 2 arcs")
    rng = ctx.rng
    quick = ctx.tier == "quick"
    cfgs = configs()
    cases = []
    n_main = 300 if quick else 1500
    bi, mid = cfgs[:4], cfgs[4:-1]

    def pick(i, n_cover):
        if i < n_cover * (len(cfgs) - 1):          # every configuration n_cover times
            return cfgs[i % (len(cfgs) - 1)]
        return rng.choice(bi) if rng.random() < 0.4 else rng.choice(mid)
    for i in range(n_main):
        cls, cfg = pick(i, 2)
        cases.append(gen_main(rng, cls, cfg))
    for i in range(50 if quick else 500):
        cls, cfg = pick(i, 1)
        cases.append(gen_recovery(rng, cls, cfg))
    for i in range(24 if quick else 200):
        cls, cfg = rng.choice(cfgs)
        cases.append(gen_probe(rng, cls, cfg))
    for i in range(16 if quick else 150):
        cases.append(gen_main(rng, "HPVUnilateral", {}, stream="hpv"))
    for c in cases:
        ctx.count(c, nontrivial(c), f"{c['stream']}-{c['cls']}")
        ctx.bump("base3" if c["graph"]["base"] == 3 else "base2")
        ctx.bump("calls", len(c["ops"]))
        for o in c["ops"]:
            ctx.bump("op-" + (o["m"] if o["op"] == "set" else o["op"]))
    # (B) correspondence with the model
    mms = corr_failing(ctx, cases, "main")
    seen = []
    for c, mm in zip(cases, mms):
        if mm is None:
            continue
        key = (c["cls"], str(mm.get("call")), str(mm.get("observable")).split(".")[-1])
        if key in seen or len(seen) >= 1:
            continue
        seen.append(key)
        report_corr(ctx, c, mm)
    ctx.extra["correspondence_mismatches"] = sum(1 for m in mms if m is not None)
    # (C) the invariant on the implementation alone
    from ..core import sig_matches
    seen_rel = []
    nrel = 0
    by_stream = {}
    for c in cases:
        for sig, detail in safe_relations(c):
            nrel += 1
            by_stream[c["stream"]] = by_stream.get(c["stream"], 0) + 1
            if any(k["status"] == "known" and sig_matches(k["signature"], sig) for k in ctx.known):
                # a listed finding: no shrinking, one KNOWN-FINDING line
                ctx.violation(sig["relation"], {"case": c, "detail": detail, "call": call_text(c)}, sig)
                continue
            key = (sig["class"], sig["relation"].split(":")[0].split(" of ")[0], sig["stream"])
            if key in seen_rel or len(seen_rel) >= 3:
                continue
            seen_rel.append(key)
            report_rel(ctx, c, sig, detail)
    ctx.extra["invariant_failures"] = nrel
    ctx.extra["invariant_stats"] = dict(STATS)
    ctx.extra["invariant_failures_by_stream"] = by_stream


def replay(ctx: Ctx, path: str) -> int:
    data = json.loads(open(path).read())
    case = data["case"]
    mm = corr_failing(ctx, [case], "replay")[0]
    fs = safe_relations(case)
    if mm is not None:
        print("REPRODUCED (correspondence)", json.dumps(jsonable(mm), default=str))
        return 1
    if fs:
        print("REPRODUCED (invariant)", json.dumps(jsonable(fs[0]), default=str))
        return 1
    print("not reproduced")
    return 0
