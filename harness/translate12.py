"""Source-to-Gallina translator, twelfth part: the parameter plumbing of `lymph.models.Unilateral` and
`lymph.models.Bilateral` (get_* / set_* for tumor spread, LNL spread, spread and all parameters) and
`utils.synchronize_params`.

On every run the CURRENT Python source is parsed with `ast`, translated statement by statement into Gallina
(`gen_<class>_<method>`), the generated term is checked by CONVERSION (`reflexivity`) against
`NumpyBiParams.np_<class>_<method>` (a hand-written statement-by-statement reading of the same Python method) and
`NumpyBiParams.v` proves once and for all that `np_<class>_<method>` equals the hand-written model of Params.v
(`u_*`, `b_*`): the object after the call and the returned value / the exception.

  piece                              source                                     model (Params.v)
  synchronize_params                 utils.synchronize_params                   sync_edges / u_sync
  uni_get_tumor_spread_params        Unilateral.get_tumor_spread_params         u_get_tumor_spread_params (object unchanged)
  uni_get_lnl_spread_params          Unilateral.get_lnl_spread_params           u_get_lnl_spread_params
  uni_get_spread_params              Unilateral.get_spread_params               u_get_spread_params
  uni_get_params                     Unilateral.get_params                      u_get_params
  uni_set_tumor_spread_params        Unilateral.set_tumor_spread_params         u_set_tumor_spread_params
  uni_set_lnl_spread_params          Unilateral.set_lnl_spread_params           u_set_lnl_spread_params
  uni_set_spread_params              Unilateral.set_spread_params               u_set_spread_params
  uni_set_params                     Unilateral.set_params                      u_set_params
  bi_get_tumor_spread_params ... bi_set_params   the same eight methods of Bilateral            b_*  (all four symmetry settings)

Every piece contains the translation of the method AND of every method of the two classes it calls (its callees are
translated from the same source in the same generated file), so the lemma of a piece is about the code that runs.

Fail-closed: every statement / expression form that is not listed in `Mod` raises `Untranslatable`.
Python local `x` becomes the Gallina binder `x_`; no emitted global name, section variable or helper binder ends in `_`
(helper binders are `x1`, `x2`, ...), so a Python name can never capture one; re-assignment is shadowing.

What the translator itself ASSUMES (trusted reading; the conventions are those of the headers of Params.v / NumpyParams.v)
 * OBJECTS.  A `Unilateral` object is the model record `uni`, a `Bilateral` object the record `bilateral`, a
   `graph.Representation` the record `graph`; the object is threaded through the statements as `self_` and a method is a
   function  self -> ... -> self * option R  (`None` = the call raised; the object is then as Python leaves it, i.e.
   partially updated).  `self.graph` is the field `u_graph` (write back: `u_with_graph`), `self.ipsi` / `self.contra` are
   `b_ipsi` / `b_contra` (write back: `b_with_ipsi` / `b_with_contra`), `self.is_symmetric["tumor_spread"]` /
   `["lnl_spread"]` are the booleans `b_symT` / `b_symL` (`Bilateral.__init__` always stores both keys).
   `self` is exactly an instance of the class (no subclass overrides the methods that are called on it), `self.ipsi`
   and `self.contra` are `Unilateral` objects and three different objects (ipsi, contra, self do not share edges).
 * ALIASING OF THE EDGE VIEWS.  `G.tumor_edges` / `G.lnl_edges` (G = `X.graph`) are the dict comprehensions of
   graph.Representation, read as `NumpyGraph.np_tumor_edges (edges_dict G)` / `np_lnl_edges (edges_dict G)` (piece
   `edge_views` of translate10 ties that reading to the source): a NEW dict holding THE SAME Edge objects.  A function that
   receives such a view and changes the objects in it therefore changes the edges of G: after the call G holds the
   objects of the view at the positions the comprehension selected (`rep_put_tumor_edges` / `rep_put_lnl_edges` =
   `py_view_back`), also when the call raised.
 * Edge methods are ABSTRACT: `the_edge_get_params tri : edge -> bool -> edge * option pdict` and
   `the_edge_set_params tri : edge -> args -> kwargs -> edge * option args` are section variables, `tri` being `g_tri G` of
   the graph G that owns the edge (SAME ARITY, as in translate5: all nodes of a Representation share `allowed_states`).
   The lemmas instantiate them with the model of the Edge methods (`Params.edge_set_params`; for get_params any function
   that leaves the edge unchanged and returns `Params.edge_get_params`), which the pieces `edge_set_params` /
   `edge_get_params` of translate5 tie to the source.  `obj.get_params(as_dict=True)` (synchronize_params) is the abstract
   method with `as_flat` at its default `true`.
 * `get_params_from`, `set_params_for`, `flatten` (imported from lymph.utils / `utils.X`) are
   `NumpyParams.np_get_params_from fuel`, `np_set_params_for`, `np_flatten fuel _ []` and `utils.unflatten_and_split` is
   `Params.unflatten_and_split` (pieces `get_params_from`, `set_params_for`, `flatten`, `unflatten_and_split` of
   translate5); `fuel` bounds the recursion of flatten: the lemmas hold for every fuel >= 2 (Unilateral) / >= 3
   (Bilateral).  `utils.synchronize_params` is translated here (piece `synchronize_params`).
 * `self.get_distribution_params` / `self.set_distribution_params` (inherited from diagnosis_times.Composite) are
   ABSTRACT methods of the object (section variables `the_uni_*` / `the_bi_*`); the lemmas instantiate the setter with
   the model `u_set_distribution_params` / `b_set_distribution_params` and ask of the getter that it leaves the object
   unchanged and returns `u_get_distribution_params` / `b_get_distribution_params` (leaf branch: translate9).
 * DICTS are insertion-ordered association lists with path keys (`pdict`): a string literal key "k" is the path ["k"];
   `{"a": E1, "b": E2}` evaluates E1, E2 in order; `D[K]` (K a literal) on a dict of dicts is `pd_sub [K] D` and
   `D[K].update(S)` is `pd_update_at [K] S D` (the dict stored under K is updated in place; a missing key would be a
   KeyError, which Params.v does not model either: the keys are the ones the callee just stored); `D.update(S)` is
   `kw_update S D`; `D1 != D2` is `negb (pdict_eqb D1 D2)`.  A dict RETURNED by a get_* method is fresh (not stored in
   any object), so updating it changes nothing else.  `G.copy()` is the same value, `KW.get("k", {})` on the first
   result of unflatten_and_split is `sub_kwargs "k" KW`; `.update` on a flat kwargs dict only on a fresh copy.
   `**D` for a flat dict of numbers D is `py_kwargs D` (every number becomes a user value), `*()`/no positional
   arguments is the empty list.
 * `as_dict` is True (the lemmas are about the dict form); `X if as_dict else X.values()` is X; `warnings.warn(...)`
   and an `if` whose body only warns (with a side-effect-free test) are dropped.
 * synchronize_params: `get_from` and `set_to` are association lists name -> object; `get_from[key]` raises KeyError
   (= `None`) when `py_getitem` finds nothing; `get_from[key].get_params(...)` may change that object (it is stored back
   under its key); the loop `for key, obj in set_to.items()` is `py_for_items2` (objects replaced in place, the second
   dict threaded along, an exception stops the loop and keeps both dicts as they are at that moment).
"""
from __future__ import annotations

import ast

from .translate import Untranslatable, _src, _strip_doc
from .translate2 import _attr_chain
from .translate5 import _params, _reads, g

ARGS, KWARGS, SPLIT, PDICT, BOOL, UNIT = "args", "kwargs", "list (string * kwargs)", "pdict", "bool", "unit"

GETTERS = ["get_tumor_spread_params", "get_lnl_spread_params", "get_spread_params", "get_params"]
SETTERS = ["set_tumor_spread_params", "set_lnl_spread_params", "set_spread_params", "set_params"]
CLS = {"u": ("Unilateral", "lymph/models/unilateral.py", "uni"), "b": ("Bilateral", "lymph/models/bilateral.py", "bilateral")}
ABSTRACT = {("u", "get_distribution_params"): "the_uni_get_distribution_params",
            ("u", "set_distribution_params"): "the_uni_set_distribution_params",
            ("b", "get_distribution_params"): "the_bi_get_distribution_params",
            ("b", "set_distribution_params"): "the_bi_set_distribution_params"}
SYM = {"tumor_spread": "b_symT", "lnl_spread": "b_symL"}


def _key(e) -> str:
    if not (isinstance(e, ast.Constant) and isinstance(e.value, str) and e.value and "_" not in e.value):
        raise Untranslatable("dict key is not a non-empty string literal without '_'")
    return f'["{e.value}"]'


def _mutated(stmts) -> list:
    """local names that are (re)bound or whose dict is updated in place"""
    out = []

    def add(x):
        while isinstance(x, ast.Subscript):
            x = x.value
        if isinstance(x, ast.Name) and x.id not in out:
            out.append(x.id)
    for s in stmts:
        for n in ast.walk(s):
            if isinstance(n, ast.Assign):
                for t in n.targets:
                    for x in ([t] if not isinstance(t, ast.Tuple) else t.elts):
                        add(x)
            elif isinstance(n, (ast.AugAssign, ast.AnnAssign)):
                add(n.target)
            elif isinstance(n, ast.Call) and isinstance(n.func, ast.Attribute) and n.func.attr in (
                    "update", "pop", "clear", "setdefault", "popitem", "append", "extend"):
                add(n.func.value)
    return out


class Unit:
    """the definitions one piece needs, in dependency order"""

    def __init__(self):
        self.defs, self.order, self.active, self.trees = {}, [], set(), {}

    def tree(self, c):
        if c not in self.trees:
            self.trees[c] = _check_module(c)
        return self.trees[c]

    def need(self, key):
        if key in self.defs:
            return
        if key in self.active:
            raise Untranslatable(f"recursive call of {key}")
        self.active.add(key)
        text = _translate_sync(self) if key == "sync" else _translate_method(self, *key)
        self.active.discard(key)
        self.defs[key] = text
        self.order.append(key)

    def text(self) -> str:
        return "".join(self.defs[k] for k in self.order)


# ----------------------------------------------------------------------------------------------------------------------
# access paths: self.graph.tumor_edges, self.ipsi.graph.lnl_edges, self.ipsi, ...
# ----------------------------------------------------------------------------------------------------------------------
STEPS = {
    ("uni", "graph"): ("graph", lambda x: f"(u_graph {x})", lambda x, n: f"(u_with_graph {x} {n})"),
    ("bilateral", "ipsi"): ("uni", lambda x: f"(b_ipsi {x})", lambda x, n: f"(b_with_ipsi {x} {n})"),
    ("bilateral", "contra"): ("uni", lambda x: f"(b_contra {x})", lambda x, n: f"(b_with_contra {x} {n})"),
    ("graph", "tumor_edges"): ("view", lambda x: f"(np_tumor_edges (edges_dict {x}))", lambda x, n: f"(rep_put_tumor_edges {x} {n})"),
    ("graph", "lnl_edges"): ("view", lambda x: f"(np_lnl_edges (edges_dict {x}))", lambda x, n: f"(rep_put_lnl_edges {x} {n})"),
}


class Path:
    """an attribute chain starting at self: its type, how to read it and how to write a new value back into self_"""

    def __init__(self, self_ty: str, chain: list):
        if not chain or chain[0] != "self":
            raise Untranslatable(f"access path {chain}")
        self.ty = self_ty
        self.gets = ["self_"]
        self.puts = []
        for a in chain[1:]:
            st = STEPS.get((self.ty, a))
            if st is None:
                raise Untranslatable(f"attribute {a} of a {self.ty}")
            self.ty, get, put = st
            self.puts.append((self.gets[-1], put))
            self.gets.append(get(self.gets[-1]))

    def get(self) -> str:
        return self.gets[-1]

    def owner(self) -> str:
        """the expression of the object that holds the last attribute (for a view: the graph)"""
        return self.gets[-2]

    def put(self, new: str) -> str:
        for x, put in reversed(self.puts):
            new = put(x, new)
        return new


# ----------------------------------------------------------------------------------------------------------------------
# methods of Unilateral / Bilateral
# ----------------------------------------------------------------------------------------------------------------------
class Mod:
    """statements  return CALL | return NAME | return NAME if as_dict else NAME.values()
                   | NAME = CALL | NAME = {"k": CALL, ...} | NAME = NAME["k"] | NAME = [utils.]flatten(NAME2)
                   | A, B = utils.unflatten_and_split(KWARGS, expected_keys=["k", ...]) | NAME = G.copy()
                   | NAME.update(KW.get("k", {})) | NAME.update(CALL) | NAME["k"].update(CALL["k2"]) | CALL (a procedure)
                   | if T: BLOCK [else: BLOCK] falling through (no return inside) | warnings.warn(...) / if T: warn (dropped)
       CALL        self.METHOD(as_flat=FLAG) | self.METHOD(*ARGS, **KWARGS) with METHOD one of the eight methods of the
                   class or get_/set_distribution_params | self.ipsi.METHOD(...) / self.contra.METHOD(...)
                   | get_params_from(VIEW, as_dict, FLAG) | set_params_for(VIEW, *ARGS, **KWARGS)
                   | utils.synchronize_params(get_from=VIEW, set_to=VIEW)
       VIEW        self[.ipsi|.contra].graph.tumor_edges | ....lnl_edges
       tests       FLAG | as_dict | self.is_symmetric["tumor_spread"|"lnl_spread"] | not / and / or | D["a"] != D["b"]"""

    def __init__(self, unit: Unit, c: str, env: dict, ret_ty: str):
        self.unit, self.c = unit, c
        self.self_ty = CLS[c][2]
        self.env = dict(env)
        self.ret_ty = ret_ty
        self.owned = set()
        self.n = 0

    def fresh(self) -> str:
        self.n += 1
        return f"x{self.n}"

    # ---- pure expressions --------------------------------------------------------------------------------------------
    def flag(self, e) -> str:
        if isinstance(e, ast.Constant) and isinstance(e.value, bool):
            return "true" if e.value else "false"
        if isinstance(e, ast.Name) and e.id == "as_dict" and "as_dict" in self.env:
            return "true"
        if isinstance(e, ast.Name) and self.env.get(e.id) == BOOL:
            return g(e.id)
        raise Untranslatable(f"flag {ast.dump(e)[:120]}")

    def sub(self, e) -> str:
        """NAME["k"] on a dict of dicts"""
        if isinstance(e, ast.Subscript) and isinstance(e.value, ast.Name) and self.env.get(e.value.id) == PDICT:
            return f"(pd_sub {_key(e.slice)} {g(e.value.id)})"
        raise Untranslatable(f"expected NAME[\"k\"]: {ast.dump(e)[:120]}")

    def boolean(self, t) -> str:
        if isinstance(t, (ast.Constant, ast.Name)):
            return self.flag(t)
        if isinstance(t, ast.UnaryOp) and isinstance(t.op, ast.Not):
            return f"(negb {self.boolean(t.operand)})"
        if isinstance(t, ast.BoolOp):
            op = " && " if isinstance(t.op, ast.And) else " || "
            return "(" + op.join(self.boolean(x) for x in t.values) + ")"
        if (isinstance(t, ast.Subscript) and _attr_chain(t.value) == ["self", "is_symmetric"] and self.c == "b"
                and isinstance(t.slice, ast.Constant) and t.slice.value in SYM):
            return f"({SYM[t.slice.value]} self_)"
        if isinstance(t, ast.Compare) and len(t.ops) == 1 and isinstance(t.ops[0], ast.NotEq):
            return f"(negb (pdict_eqb {self.sub(t.left)} {self.sub(t.comparators[0])}))"
        raise Untranslatable(f"test {ast.dump(t)[:160]}")

    # ---- calls -------------------------------------------------------------------------------------------------------
    def star_args(self, call):
        """F(..., *ARGS, **KWARGS) -> (positional prefix, args text, kwargs text)"""
        pos = [a for a in call.args if not isinstance(a, ast.Starred)]
        star = [a for a in call.args if isinstance(a, ast.Starred)]
        ok = (len(star) == 1 and call.args[-1] is star[0] and isinstance(star[0].value, ast.Name)
              and self.env.get(star[0].value.id) == ARGS and len(call.keywords) == 1 and call.keywords[0].arg is None
              and isinstance(call.keywords[0].value, ast.Name) and self.env.get(call.keywords[0].value.id) == KWARGS)
        if not ok:
            raise Untranslatable(f"expected F(*ARGS, **KWARGS): {ast.unparse(call)[:120]}")
        return pos, g(star[0].value.id), g(call.keywords[0].value.id)

    def only_flag(self, call) -> str:
        if call.args or len(call.keywords) != 1 or call.keywords[0].arg != "as_flat":
            raise Untranslatable(f"expected F(as_flat=FLAG): {ast.unparse(call)[:120]}")
        return self.flag(call.keywords[0].value)

    def view(self, e) -> Path:
        ch = _attr_chain(e)
        if ch is None:
            raise Untranslatable(f"view expected: {ast.dump(e)[:120]}")
        p = Path(self.self_ty, ch)
        if p.ty != "view":
            raise Untranslatable(f"{'.'.join(ch)} is not a dict of edges")
        return p

    def on(self, p: Path, call: str, ty: str):
        a, b = self.fresh(), self.fresh()
        return f"(let '({a}, {b}) := {call} in\n    ({p.put(a)}, {b}))", ty

    def method(self, c: str, obj: str, name: str, call):
        """the term `gen_<c>_<name> obj ...` (or the abstract method) and its type"""
        if (c, name) in ABSTRACT:
            f = ABSTRACT[(c, name)]
        elif name in GETTERS + SETTERS:
            self.unit.need((c, name))
            f = f"gen_{c}_{name}"
        else:
            raise Untranslatable(f"call of the method {name}")
        if name.startswith("get_"):
            return f"{f} {obj} {self.only_flag(call)}", PDICT
        pos, a, kw = self.star_args(call)
        if pos:
            raise Untranslatable(f"{name}: positional arguments before *ARGS")
        return f"{f} {obj} {a} {kw}", ARGS

    def eff(self, e):
        """-> (term : self * option T, T)"""
        if not isinstance(e, ast.Call):
            raise Untranslatable(f"call expected: {ast.dump(e)[:160]}")
        ch = _attr_chain(e.func)
        if ch is None:
            raise Untranslatable(f"call of {ast.dump(e.func)[:120]}")
        funcs = self.unit.tree(self.c)["funcs"]
        fn = ch[0] if len(ch) == 1 else ch[1] if len(ch) == 2 and ch[0] == "utils" else None
        if fn is not None and fn not in funcs.get(len(ch), ()):
            raise Untranslatable(f"{'.'.join(ch)} is not a function of lymph.utils this module can call that way")
        if fn == "get_params_from":
            if e.keywords or len(e.args) != 3 or not (isinstance(e.args[1], ast.Name) and e.args[1].id == "as_dict"):
                raise Untranslatable("expected get_params_from(VIEW, as_dict, FLAG)")
            self.flag(e.args[1])
            p = self.view(e.args[0])
            return self.on(p, f"np_get_params_from fuel (the_edge_get_params (g_tri {p.owner()})) {p.get()} {self.flag(e.args[2])}", PDICT)
        if fn == "set_params_for":
            pos, a, kw = self.star_args(e)
            if len(pos) != 1:
                raise Untranslatable("expected set_params_for(VIEW, *ARGS, **KWARGS)")
            p = self.view(pos[0])
            return self.on(p, f"np_set_params_for (the_edge_set_params (g_tri {p.owner()})) {p.get()} {a} {kw}", ARGS)
        if fn == "synchronize_params":
            if e.args or sorted(k.arg or "" for k in e.keywords) != ["get_from", "set_to"]:
                raise Untranslatable("expected synchronize_params(get_from=VIEW, set_to=VIEW)")
            kw = {k.arg: k.value for k in e.keywords}
            p1, p2 = self.view(kw["get_from"]), self.view(kw["set_to"])
            if p1.gets[1] == p2.gets[1]:
                raise Untranslatable("synchronize_params between views of the same object")
            self.unit.need("sync")
            a, b, r = self.fresh(), self.fresh(), self.fresh()
            return (f"(let '(({a}, {b}), {r}) := gen_synchronize_params (the_edge_get_params (g_tri {p1.owner()})) "
                    f"(the_edge_set_params (g_tri {p2.owner()})) {p1.get()} {p2.get()} in\n"
                    f"    let self_ := {p1.put(a)} in\n    let self_ := {p2.put(b)} in\n    (self_, {r}))"), UNIT
        if fn is not None:
            raise Untranslatable(f"call of {'.'.join(ch)}")
        if ch[0] == "self" and len(ch) == 2:
            return self.method(self.c, "self_", ch[1], e)
        if ch[0] == "self" and len(ch) == 3:
            p = Path(self.self_ty, ch[:2])
            if p.ty != "uni":
                raise Untranslatable(f"method call on {'.'.join(ch[:2])}")
            t, ty = self.method("u", p.get(), ch[2], e)
            return self.on(p, t, ty)
        raise Untranslatable(f"call of {'.'.join(ch)}")

    @staticmethod
    def bind(term: str, pat: str, cont: str) -> str:
        return f"match {term} with\n  | (self_, None) => (self_, None)\n  | (self_, Some {pat}) =>\n  {cont}\n  end"

    # ---- statements --------------------------------------------------------------------------------------------------
    @staticmethod
    def is_warn(s) -> bool:
        return isinstance(s, ast.Expr) and isinstance(s.value, ast.Call) and _attr_chain(s.value.func) == ["warnings", "warn"]

    def is_utils(self, call, name) -> bool:
        ch = _attr_chain(call.func) if isinstance(call, ast.Call) else None
        if ch is None:
            return False
        funcs = self.unit.tree(self.c)["funcs"]
        return (ch == [name] and name in funcs.get(1, ())) or (ch == ["utils", name] and name in funcs.get(2, ()))

    def block(self, stmts, fall) -> str:
        if not stmts:
            if fall is None:
                raise Untranslatable("block falls through")
            return fall
        s, rest = stmts[0], stmts[1:]
        nxt = lambda: self.block(rest, fall)  # noqa: E731
        if self.is_warn(s):
            return nxt()
        if isinstance(s, ast.If) and not s.orelse and all(self.is_warn(x) for x in s.body):
            self.boolean(s.test)
            return nxt()
        if isinstance(s, ast.Return):
            if rest or s.value is None:
                raise Untranslatable("code after return / bare return")
            v = s.value
            if isinstance(v, ast.IfExp):
                ok = (isinstance(v.test, ast.Name) and v.test.id == "as_dict" and "as_dict" in self.env and isinstance(v.body, ast.Name)
                      and isinstance(v.orelse, ast.Call) and not v.orelse.args and not v.orelse.keywords
                      and _attr_chain(v.orelse.func) == [v.body.id, "values"])
                if not ok:
                    raise Untranslatable("expected `return X if as_dict else X.values()`")
                v = v.body
            if isinstance(v, ast.Name):
                if self.env.get(v.id) != self.ret_ty:
                    raise Untranslatable(f"returns {v.id} : {self.env.get(v.id)}, expected {self.ret_ty}")
                return f"(self_, Some {g(v.id)})"
            t, ty = self.eff(v)
            if ty != self.ret_ty:
                raise Untranslatable(f"returns a {ty}, expected {self.ret_ty}")
            return t
        if isinstance(s, ast.If):
            if any(isinstance(n, (ast.Return, ast.Raise, ast.Break, ast.Continue)) for x in s.body + s.orelse for n in ast.walk(x)):
                raise Untranslatable("return / raise / break / continue inside an `if`")
            t = self.boolean(s.test)
            live = [n for n in _mutated(s.body + s.orelse) if n in _reads(rest)]
            for n in live:
                if n not in self.env:
                    raise Untranslatable(f"{n} is assigned in a branch only and used afterwards")
            val = "tt" if not live else g(live[0]) if len(live) == 1 else "(" + ", ".join(g(n) for n in live) + ")"
            pat = "_" if not live else val
            before, owned = dict(self.env), set(self.owned)
            a = self.block(s.body, f"(self_, Some {val})")
            after_a = self.env
            self.env, self.owned = dict(before), set(owned)
            b = self.block(s.orelse, f"(self_, Some {val})")
            for n in live:
                if not (after_a[n] == self.env[n] == before[n]):
                    raise Untranslatable(f"the type of {n} changes in a branch")
            self.env, self.owned = before, owned & {n for n in owned if n not in live}
            return self.bind(f"(if {t} then\n  {a}\n  else\n  {b})", pat, nxt())
        if isinstance(s, ast.Expr) and isinstance(s.value, ast.Call):
            c = s.value
            # NAME.update(...) | NAME["k"].update(CALL["k2"])
            if isinstance(c.func, ast.Attribute) and c.func.attr == "update" and len(c.args) == 1 and not c.keywords:
                recv, a = c.func.value, c.args[0]
                if isinstance(recv, ast.Name) and self.env.get(recv.id) == KWARGS:
                    if recv.id not in self.owned:
                        raise Untranslatable(f"{recv.id}.update(...): the dict may be shared (it is not a fresh copy)")
                    ok = (isinstance(a, ast.Call) and isinstance(a.func, ast.Attribute) and a.func.attr == "get" and not a.keywords
                          and len(a.args) == 2 and isinstance(a.func.value, ast.Name) and self.env.get(a.func.value.id) == SPLIT
                          and isinstance(a.args[0], ast.Constant) and isinstance(a.args[0].value, str)
                          and isinstance(a.args[1], ast.Dict) and not a.args[1].keys)
                    if not ok:
                        raise Untranslatable("update of a kwargs dict with something else than SPLIT.get(\"k\", {})")
                    d = g(recv.id)
                    return f"let {d} := kw_update (sub_kwargs \"{a.args[0].value}\" {g(a.func.value.id)}) {d} in\n  {nxt()}"
                if isinstance(recv, ast.Name) and self.env.get(recv.id) == PDICT:
                    t, ty = self.eff(a)
                    if ty != PDICT:
                        raise Untranslatable(f"update with a {ty}")
                    x, d = self.fresh(), g(recv.id)
                    return self.bind(t, x, f"let {d} := kw_update {x} {d} in\n  {nxt()}")
                if (isinstance(recv, ast.Subscript) and isinstance(recv.value, ast.Name) and self.env.get(recv.value.id) == PDICT
                        and isinstance(a, ast.Subscript)):
                    t, ty = self.eff(a.value)
                    if ty != PDICT:
                        raise Untranslatable(f"subscript of a {ty}")
                    x, d = self.fresh(), g(recv.value.id)
                    return self.bind(t, x, f"let {d} := pd_update_at {_key(recv.slice)} (pd_sub {_key(a.slice)} {x}) {d} in\n  {nxt()}")
                raise Untranslatable(f"update: {ast.unparse(s)[:160]}")
            t, ty = self.eff(c)
            if ty != UNIT:
                raise Untranslatable("the value of a call is dropped")
            return self.bind(t, "_", nxt())
        if isinstance(s, ast.Assign) and len(s.targets) == 1:
            tg, v = s.targets[0], s.value
            # A, B = utils.unflatten_and_split(KWARGS, expected_keys=["k", ...])
            if isinstance(tg, ast.Tuple):
                ok = (len(tg.elts) == 2 and all(isinstance(x, ast.Name) for x in tg.elts) and self.is_utils(v, "unflatten_and_split")
                      and len(v.args) == 1 and isinstance(v.args[0], ast.Name) and self.env.get(v.args[0].id) == KWARGS
                      and len(v.keywords) == 1 and v.keywords[0].arg == "expected_keys" and isinstance(v.keywords[0].value, ast.List)
                      and all(isinstance(x, ast.Constant) and isinstance(x.value, str) for x in v.keywords[0].value.elts))
                if not ok:
                    raise Untranslatable("expected A, B = utils.unflatten_and_split(KWARGS, expected_keys=[\"k\", ...])")
                a, b = (x.id for x in tg.elts)
                if a == b or "self" in (a, b):
                    raise Untranslatable("unflatten_and_split: targets")
                src = g(v.args[0].id)
                names = "; ".join(f'"{x.value}"' for x in v.keywords[0].value.elts)
                self.env[a], self.env[b] = SPLIT, KWARGS
                self.owned -= {a, b}
                return f"let '({g(a)}, {g(b)}) := unflatten_and_split {src} [{names}] in\n  {nxt()}"
            if not isinstance(tg, ast.Name) or tg.id in ("self", "as_dict"):
                raise Untranslatable(f"assignment target {ast.dump(tg)[:120]}")
            name = tg.id
            self.owned.discard(name)
            # NAME = {"k": CALL, ...}
            if isinstance(v, ast.Dict):
                if not v.keys or any(k is None for k in v.keys) or len({_key(k) for k in v.keys}) != len(v.keys):
                    raise Untranslatable("dict literal")
                items = []

                def go(k):
                    if k == len(v.keys):
                        self.env[name] = PDICT
                        return f"let {g(name)} := [{'; '.join(items)}] in\n  {nxt()}"
                    t, ty = self.eff(v.values[k])
                    if ty != PDICT:
                        raise Untranslatable(f"dict value is a {ty}")
                    x = self.fresh()
                    items.append(f"({_key(v.keys[k])}, Node {x})")
                    return self.bind(t, x, go(k + 1))
                return go(0)
            # NAME = NAME["k"]  (the same name: any other name would become an alias of a dict stored in NAME2)
            if isinstance(v, ast.Subscript):
                if not (isinstance(v.value, ast.Name) and v.value.id == name):
                    raise Untranslatable(f"{name} = {ast.unparse(v)}: a local alias of a dict stored in another dict")
                t = self.sub(v)
                self.env[name] = PDICT
                return f"let {g(name)} := {t} in\n  {nxt()}"
            # NAME = G.copy()
            if (isinstance(v, ast.Call) and isinstance(v.func, ast.Attribute) and v.func.attr == "copy" and not v.args and not v.keywords
                    and isinstance(v.func.value, ast.Name) and self.env.get(v.func.value.id) == KWARGS):
                self.env[name] = KWARGS
                self.owned.add(name)
                return f"let {g(name)} := {g(v.func.value.id)} in\n  {nxt()}"
            # NAME = flatten(NAME2)
            if self.is_utils(v, "flatten"):
                if not (len(v.args) == 1 and not v.keywords and isinstance(v.args[0], ast.Name) and self.env.get(v.args[0].id) == PDICT):
                    raise Untranslatable("expected flatten(NAME)")
                self.env[name] = PDICT
                return f"let {g(name)} := np_flatten fuel {g(v.args[0].id)} [] in\n  {nxt()}"
            # NAME = CALL
            t, ty = self.eff(v)
            if ty == UNIT:
                raise Untranslatable("the value of a procedure is used")
            if name in self.env and self.env[name] != ty:
                raise Untranslatable(f"the type of {name} changes from {self.env[name]} to {ty}")
            self.env[name] = ty
            return self.bind(t, g(name), nxt())
        raise Untranslatable(f"statement {type(s).__name__}: {ast.dump(s)[:160]}")


def _check_module(c: str) -> dict:
    """the class, and which names of lymph.utils the module can call as NAME(...) (1) / utils.NAME(...) (2)"""
    cls_name, rel, _ = CLS[c]
    tree = ast.parse(_src(rel))
    used = ("get_params_from", "set_params_for", "flatten", "unflatten_and_split", "synchronize_params")
    direct, via = set(), False
    for n in tree.body:
        if isinstance(n, ast.ImportFrom) and n.module == "lymph.utils":
            direct |= {a.name for a in n.names if a.asname is None and a.name in used}
            if any(a.asname in used + ("utils",) for a in n.names):
                raise Untranslatable("an import renames a function of lymph.utils")
        if isinstance(n, ast.ImportFrom) and n.module == "lymph" and any(a.name == "utils" and a.asname is None for a in n.names):
            via = True
        if isinstance(n, (ast.Import, ast.ImportFrom)) and any((a.asname or a.name) in used + ("utils",) for a in n.names) \
                and not (isinstance(n, ast.ImportFrom) and n.module in ("lymph", "lymph.utils")):
            raise Untranslatable("a name of lymph.utils is imported from somewhere else")
    for n in ast.walk(tree):
        bound = []
        if isinstance(n, (ast.FunctionDef, ast.ClassDef, ast.AsyncFunctionDef)):
            bound.append(n.name)
        elif isinstance(n, ast.Name) and isinstance(n.ctx, (ast.Store, ast.Del)):
            bound.append(n.id)
        elif isinstance(n, ast.arg):
            bound.append(n.arg)
        if any(b in used + ("utils", "warnings") for b in bound):
            raise Untranslatable(f"{rel} rebinds {bound}")
    classes = [n for n in tree.body if isinstance(n, ast.ClassDef) and n.name == cls_name]
    if len(classes) != 1:
        raise Untranslatable(f"class {cls_name} is not defined exactly once")
    attrs = ["graph", "ipsi", "contra", "is_symmetric"]
    for n in classes[0].body:
        if isinstance(n, ast.FunctionDef) and n.name in ["__getattr__", "__getattribute__", "__setattr__", "__delattr__"] + attrs:
            raise Untranslatable(f"{cls_name} defines {n.name}")
        if isinstance(n, (ast.Assign, ast.AnnAssign)):
            tgs = n.targets if isinstance(n, ast.Assign) else [n.target]
            if any(isinstance(t, ast.Name) and t.id in GETTERS + SETTERS + attrs for t in tgs):
                raise Untranslatable(f"{cls_name} assigns a class attribute that shadows a method / attribute")
    for n in ast.walk(classes[0]):
        # no instance attribute shadows a method that is called on self / on self.ipsi, self.contra
        if isinstance(n, ast.Attribute) and isinstance(n.ctx, (ast.Store, ast.Del)) and n.attr in GETTERS + SETTERS + [
                "get_distribution_params", "set_distribution_params"]:
            raise Untranslatable(f"{cls_name} assigns the attribute {n.attr}")
    return {"cls": classes[0], "funcs": {1: direct, 2: set(used) if via else set()}}


def _method_def(cls, name):
    found = [n for n in cls.body if isinstance(n, ast.FunctionDef) and n.name == name]
    if len(found) != 1 or found[0].decorator_list:
        raise Untranslatable(f"{cls.name}.{name} is not defined exactly once without decorators")
    return found[0]


def _translate_method(unit: Unit, c: str, name: str) -> str:
    fn = _method_def(unit.tree(c)["cls"], name)
    ty = CLS[c][2]
    if name in GETTERS:
        _params(fn, ["self", "as_dict", "as_flat"], [True, True])
        m = Mod(unit, c, {"as_dict": "const true", "as_flat": BOOL}, PDICT)
        body = m.block(_strip_doc(fn.body), None)
        return f"Definition gen_{c}_{name} (self_ : {ty}) (as_flat_ : bool) : {ty} * option pdict :=\n  {body}.\n"
    if name in SETTERS:
        _params(fn, ["self"], vararg="args", kwarg="kwargs")
        m = Mod(unit, c, {"args": ARGS, "kwargs": KWARGS}, ARGS)
        body = m.block(_strip_doc(fn.body), None)
        return f"Definition gen_{c}_{name} (self_ : {ty}) (args_ : args) (kwargs_ : kwargs) : {ty} * option args :=\n  {body}.\n"
    raise Untranslatable(name)


def _translate_sync(unit: Unit) -> str:
    """def synchronize_params(get_from, set_to):
           for KEY, OBJ in set_to.items():
               OBJ.set_params(**get_from[KEY].get_params(as_dict=True))"""
    tree = ast.parse(_src("lymph/utils.py"))
    found = [n for n in tree.body if isinstance(n, ast.FunctionDef) and n.name == "synchronize_params"]
    if len(found) != 1 or found[0].decorator_list:
        raise Untranslatable("utils.synchronize_params is not defined exactly once")
    fn = found[0]
    _params(fn, ["get_from", "set_to"])
    st = _strip_doc(fn.body)
    ok = (len(st) == 1 and isinstance(st[0], ast.For) and not st[0].orelse and isinstance(st[0].target, ast.Tuple)
          and len(st[0].target.elts) == 2 and all(isinstance(x, ast.Name) for x in st[0].target.elts)
          and isinstance(st[0].iter, ast.Call) and not st[0].iter.args and not st[0].iter.keywords
          and _attr_chain(st[0].iter.func) == ["set_to", "items"] and len(st[0].body) == 1)
    if not ok:
        raise Untranslatable("synchronize_params is not one loop `for KEY, OBJ in set_to.items()` with one statement")
    key, obj = (x.id for x in st[0].target.elts)
    if len({key, obj, "get_from", "set_to"}) != 4:
        raise Untranslatable("synchronize_params: loop variables")
    s = st[0].body[0]
    ok = (isinstance(s, ast.Expr) and isinstance(s.value, ast.Call) and _attr_chain(s.value.func) == [obj, "set_params"]
          and not s.value.args and len(s.value.keywords) == 1 and s.value.keywords[0].arg is None)
    if not ok:
        raise Untranslatable(f"loop body is not `{obj}.set_params(**E)`")
    e = s.value.keywords[0].value
    ok = (isinstance(e, ast.Call) and isinstance(e.func, ast.Attribute) and e.func.attr == "get_params" and not e.args
          and len(e.keywords) == 1 and e.keywords[0].arg == "as_dict" and isinstance(e.keywords[0].value, ast.Constant)
          and e.keywords[0].value.value is True and isinstance(e.func.value, ast.Subscript)
          and isinstance(e.func.value.value, ast.Name) and e.func.value.value.id == "get_from"
          and isinstance(e.func.value.slice, ast.Name) and e.func.value.slice.id == key)
    if not ok:
        raise Untranslatable(f"the keywords are not `**get_from[{key}].get_params(as_dict=True)`")
    k, o = g(key), g(obj)
    return ("Definition gen_synchronize_params {O1 O2} (get_params : O1 -> bool -> O1 * option pdict)\n"
            "    (set_params : O2 -> args -> kwargs -> O2 * option args)\n"
            "    (get_from_ : list (string * O1)) (set_to_ : list (string * O2))\n"
            "    : (list (string * O1) * list (string * O2)) * option unit :=\n"
            f"  let '((set_to_, get_from_), x0) := py_for_items2 (fun {k} {o} get_from_ =>\n"
            f"    match py_getitem get_from_ {k} with\n"
            f"    | None => (({o}, get_from_), None)\n"
            f"    | Some x1 =>\n"
            f"    let '(x1, x2) := get_params x1 true in\n"
            f"    let get_from_ := dict_set {k} x1 get_from_ in\n"
            f"    match x2 with\n"
            f"    | None => (({o}, get_from_), None)\n"
            f"    | Some x2 =>\n"
            f"    match set_params {o} [] (py_kwargs x2) with\n"
            f"    | ({o}, None) => (({o}, get_from_), None)\n"
            f"    | ({o}, Some _) => (({o}, get_from_), Some tt)\n"
            f"    end end end) set_to_ get_from_ in\n"
            "  ((get_from_, set_to_), x0).\n")


# ----------------------------------------------------------------------------------------------------------------------
# the generated files
# ----------------------------------------------------------------------------------------------------------------------
SECTION = ("Section Gen.\n"
           "Variable fuel : nat.\n"
           "Variable the_edge_get_params : bool -> edge -> bool -> edge * option pdict.\n"
           "Variable the_edge_set_params : bool -> edge -> args -> kwargs -> edge * option args.\n"
           "Variable the_uni_get_distribution_params : uni -> bool -> uni * option pdict.\n"
           "Variable the_uni_set_distribution_params : uni -> args -> kwargs -> uni * option args.\n"
           "Variable the_bi_get_distribution_params : bilateral -> bool -> bilateral * option pdict.\n"
           "Variable the_bi_set_distribution_params : bilateral -> args -> kwargs -> bilateral * option args.\n")

# per method: the section variables its definition depends on (in the order of SECTION), and the statement of the lemma
EGP = "(forall tri e fl, egp tri e fl = (e, Some (edge_get_params tri e)))"
UDP = "(forall u fl, udp u fl = (u, Some (u_get_distribution_params u fl)))"
BDP = "(forall b fl, bdp b fl = (b, Some (b_get_distribution_params b fl)))"
LEMMAS = {
    ("u", "get_tumor_spread_params"): ("fuel egp", f"{EGP} ->", "(S (S fuel)) egp", "u fl", "(u, Some (u_get_tumor_spread_params u fl))", "Hg"),
    ("u", "get_lnl_spread_params"): ("fuel egp", f"{EGP} ->", "(S (S fuel)) egp", "u fl", "(u, Some (u_get_lnl_spread_params u fl))", "Hg"),
    ("u", "get_spread_params"): ("fuel egp", f"{EGP} ->", "(S (S fuel)) egp", "u fl", "(u, Some (u_get_spread_params u fl))", "Hg"),
    ("u", "get_params"): ("fuel egp udp", f"{EGP} -> {UDP} ->", "(S (S fuel)) egp udp", "u fl", "(u, Some (u_get_params u fl))", "Hg Hd"),
    ("u", "set_tumor_spread_params"): ("", "", "edge_set_params", "u a kw", "u_set_tumor_spread_params u a kw", ""),
    ("u", "set_lnl_spread_params"): ("", "", "edge_set_params", "u a kw", "u_set_lnl_spread_params u a kw", ""),
    ("u", "set_spread_params"): ("", "", "edge_set_params", "u a kw", "u_set_spread_params u a kw", ""),
    ("u", "set_params"): ("", "", "edge_set_params u_set_distribution_params", "u a kw", "u_set_params u a kw", ""),
    ("b", "get_tumor_spread_params"): ("fuel egp", f"{EGP} ->", "(S (S (S fuel))) egp", "b fl", "(b, Some (b_get_tumor_spread_params b fl))", "Hg"),
    ("b", "get_lnl_spread_params"): ("fuel egp", f"{EGP} ->", "(S (S (S fuel))) egp", "b fl", "(b, Some (b_get_lnl_spread_params b fl))", "Hg"),
    ("b", "get_spread_params"): ("fuel egp", f"{EGP} ->", "(S (S (S fuel))) egp", "b fl", "(b, Some (b_get_spread_params b fl))", "Hg"),
    ("b", "get_params"): ("fuel egp bdp", f"{EGP} -> {BDP} ->", "(S (S (S fuel))) egp bdp", "b fl", "(b, Some (b_get_params b fl))", "Hg Hd"),
    ("b", "set_tumor_spread_params"): ("egp", f"{EGP} ->", "egp edge_set_params", "b a kw", "b_set_tumor_spread_params b a kw", "Hg"),
    ("b", "set_lnl_spread_params"): ("egp", f"{EGP} ->", "egp edge_set_params", "b a kw", "b_set_lnl_spread_params b a kw", "Hg"),
    ("b", "set_spread_params"): ("egp", f"{EGP} ->", "egp edge_set_params", "b a kw", "b_set_spread_params b a kw", "Hg"),
    ("b", "set_params"): ("egp", f"{EGP} ->", "egp edge_set_params b_set_distribution_params", "b a kw", "b_set_params b a kw", "Hg"),
}
# the section variables of the `_np` lemma (all of them universally quantified)
NPVARS = {
    ("u", "get_tumor_spread_params"): "fuel egp", ("u", "get_lnl_spread_params"): "fuel egp", ("u", "get_spread_params"): "fuel egp",
    ("u", "get_params"): "fuel egp udp",
    ("u", "set_tumor_spread_params"): "esp", ("u", "set_lnl_spread_params"): "esp", ("u", "set_spread_params"): "esp",
    ("u", "set_params"): "esp usd",
    ("b", "get_tumor_spread_params"): "fuel egp", ("b", "get_lnl_spread_params"): "fuel egp", ("b", "get_spread_params"): "fuel egp",
    ("b", "get_params"): "fuel egp bdp",
    ("b", "set_tumor_spread_params"): "egp esp", ("b", "set_lnl_spread_params"): "egp esp", ("b", "set_spread_params"): "egp esp",
    ("b", "set_params"): "egp esp bsd",
}


def _piece(c: str, name: str):
    def run() -> str:
        unit = Unit()
        unit.need((c, name))
        quant, hyps, inst, objs, rhs, hnames = LEMMAS[(c, name)]
        npv = NPVARS[(c, name)]
        full = f"{c}_{name}"
        out = SECTION + unit.text() + "End Gen.\n"
        out += (f"Lemma gen_{full}_np : forall {npv} {objs}, gen_{full} {npv} {objs} = np_{full} {npv} {objs}.\n"
                "Proof. intros. reflexivity. Qed.\n")
        q = (quant + " " if quant else "") + objs
        out += (f"Lemma gen_{full}_eq : forall {q}, {hyps}\n  gen_{full} {inst} {objs} = {rhs}.\n"
                f"Proof. intros {q}{' ' + hnames if hnames else ''}. rewrite gen_{full}_np. apply np_{full}_eq{'; assumption' if hnames else ''}. Qed.\n")
        return out
    return run


def translate_synchronize_params() -> str:
    unit = Unit()
    unit.need("sync")
    return (unit.text()
            + "Lemma gen_synchronize_params_np : forall O1 O2 (gp : O1 -> bool -> O1 * option pdict) (sp : O2 -> args -> kwargs -> O2 * option args) f t,\n"
              "  gen_synchronize_params gp sp f t = np_synchronize_params gp sp f t.\n"
              "Proof. intros. reflexivity. Qed.\n"
              "Lemma gen_synchronize_params_eq : forall tf tto (gp : edge -> bool -> edge * option pdict) from to,\n"
              "  (forall e fl, gp e fl = (e, Some (edge_get_params tf e))) ->\n"
              "  gen_synchronize_params gp (edge_set_params tto) (edge_objects from) (edge_objects to)\n"
              "  = let '(to', ok) := sync_edges tf tto sel_all from to in\n"
              "    ((edge_objects from, edge_objects to'), if ok then Some tt else None).\n"
              "Proof. intros tf tto gp from to H. rewrite gen_synchronize_params_np. apply np_synchronize_params_eq. exact H. Qed.\n")


HEADER = ("(* GENERATED on every run by harness/translate12.py from the Python source of lymph; do not edit *)\n"
          "From LymphModel Require Import Base States Linalg Graph Transition Observation Dist Unilateral Models Params NumpyGraph NumpyParams NumpyBiParams.\n"
          "Local Open Scope nat_scope.\nLocal Open Scope string_scope.\nLocal Open Scope list_scope.\n\n")

PIECES = {"synchronize_params": (translate_synchronize_params, "gen_synchronize_params_eq", "lymph/utils.py synchronize_params")}
for _c in ("u", "b"):
    for _n in GETTERS + SETTERS:
        _p = ("uni_" if _c == "u" else "bi_") + _n
        PIECES[_p] = (_piece(_c, _n), f"gen_{_c}_{_n}_eq", f"{CLS[_c][1]} {CLS[_c][0]}.{_n}")


def generate(piece: str) -> str:
    fn, lemma, _ = PIECES[piece]
    return HEADER + fn() + f"Print Assumptions {lemma}.\n"


if __name__ == "__main__":
    import sys
    for p in (sys.argv[1:] or PIECES):
        print(generate(p))
