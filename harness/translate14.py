"""Source-to-Gallina translator, fourteenth part: `lymph/modalities.py` -- the `Modality` OBJECT (private attributes that may
not exist yet, a cached confusion matrix, property setters with range checks and cache invalidation, `__hash__`, `__eq__`) and
the LEAF branch of `modalities.Composite` (the insertion-ordered dict `self._modalities` of such objects).

On every run the CURRENT Python source is parsed with `ast`, translated statement by statement into Gallina
(`gen_<function>`), the generated term is checked by CONVERSION (`reflexivity`) against `NumpyModalities.np_<function>` (a
hand-written statement-by-statement reading of the same Python function) and `NumpyModalities.v` proves once and for all
that `np_<function>` behaves like the hand-written models: `Sync.mk_modality` / `Sync.leaf_cfg` (cache-free),
`Machine.istep uni_sig` on `i_mods` (objects WITH their `_confusion_matrix` cache: `cm_read`, `fill_cms`, `aset`, `adel`,
`replace_assoc`, `uni_apply_mupd`), `Observation.confusion_matrix` and the KEYS of Hash.v (`mod_key`, `mod_eq`, `mod_eq2`,
`coll_key`, `leaf_op`).  The representation is a FUNCTION model -> object: `obj_of tri m c` is the Python object of the
modality `m` of a model of arity `tri` whose cache holds `c`, `objs_of tri ims` the dict of a leaf.

  piece                        source                                                     model
  mod_init                     Modality.__init__ (+ spec / sens setters)                  Sync.mk_modality
  mod_spec_sens                Modality.spec / sens: getters and setters                  Machine.uni_apply_mupd (cache dropped)
  mod_check_confusion_matrix   Modality.check_confusion_matrix                            NumpyModalities.cm_valid
  mod_confusion_matrix_set     Modality.confusion_matrix setter (+ check)                 stores exactly the valid matrices
  mod_confusion_matrix         Modality.confusion_matrix property (+ setter, check)       Observation.confusion_matrix, Machine.cm_read
  mod_hash                     Modality.__hash__ (+ the property)                         Hash.mod_key (its bytes)
  mod_eq                       Modality.__eq__ (+ the property)                           Hash.mod_eq2 / Hash.mod_eq
  mod_is_leaf                  Composite._is_modality_leaf                                (the assumption of the leaf pieces)
  leaf_get_all_modalities      Composite.get_all_modalities, leaf branch                  the dict itself
  leaf_get_modality            Composite.get_modality (+ get_all_modalities)              Machine.lookup (KeyError)
  leaf_set_modality            Composite.set_modality, leaf (+ Modality.__init__)         Sync.leaf_set_modality, Machine SetMod, Hash OpSet
  leaf_del_modality            Composite.del_modality, leaf                               Sync CDelModality, Machine DelMod, Hash OpDel
  leaf_replace_all_modalities  Composite.replace_all_modalities, leaf (+ clear, set)      Sync CReplaceModalities, Machine ReplaceMods
  leaf_clear_modalities        Composite.clear_modalities, leaf                           Sync CClearModalities
  leaf_modalities_hash         Composite.modalities_hash, leaf (+ Modality.__hash__)      Hash.coll_key (mod_key b) (CLeaf ...)
  branch_set_modality, branch_del_modality, branch_replace_all_modalities, branch_clear_modalities
                               the `else` branch: forwarding to the children              Sync.b_cfg / h_cfg / m_cfg (left to right,
                                                                                          an exception stops the loop)
  branch_modalities_hash       Composite.modalities_hash, `else` branch                   Hash.coll_key _ (CBranch ...)
(`leaf_get_modality` also proves the user idiom `leaf.get_modality(n).spec = q` against Machine's UpdMod.)

Fail-closed: every statement / expression form that is not listed in `T` raises `Untranslatable`.  Python local `x` becomes
the Gallina binder `x_`; no emitted global name or function parameter ends in `_` except the threaded objects (`self_`,
`other_`, the loop's `modality_`, the dict parameter `modalities_`).  Re-assignment is shadowing.

What the translator itself ASSUMES (trusted reading)
 * a `Modality` object is the record `mobj` of NumpyModalities.v, threaded through the statements as `self_`:
     its class           = `mo_path : bool` (true = `Pathological`, false = `Clinical`; the base class `Modality` is never
                           instantiated by lymph: `set_modality` picks one of the two);  `isinstance(x, Pathological)` is
                           `mo_path x`; `cls(...)` for `cls` one of the two classes creates `mo_new cls` (no attribute
                           exists) and runs `Modality.__init__` on it (the translator checks that the subclasses define
                           nothing but `compute_confusion_matrix`),
     `self._spec`, `self._sens`       = `mo_spec`, `mo_sens : option Qc`  (None = the attribute does not exist yet),
     `self.is_trinary`                = `mo_tri : option bool` (a plain attribute: the translator checks that the class
                                        defines no property of that name),
     `self._confusion_matrix`         = `mo_cm : option mat` (None = does not exist: never computed, or deleted by a setter).
   Reading an attribute that does not exist (`rd_*`) and `del` of one (`del_cm`) raise AttributeError;
   `hasattr(self, "_confusion_matrix")` is `py_hasattr (mo_cm self_)`.
 * a method is a function `mobj -> ... -> mobj * dres R` (`dres R = derr + R` of DistModel.v): the object as Python leaves
   it and either the exception (`DValue` ValueError, `DKey` KeyError, `DAttr` AttributeError) or the value.
   `raise ValueError(...)` is `inl DValue`; `and` is short-circuit.  Properties are calls: `x.spec` is `gen_spec_get x`,
   `x.spec = v` is `gen_spec_set x v`, `x.confusion_matrix` is `gen_confusion_matrix x`, `x.confusion_matrix = v` is
   `gen_confusion_matrix_set x v`, `self.check_confusion_matrix(v)` is `gen_check_confusion_matrix self_ v`, `hash(x)` of a
   Modality is `gen_hash hash_bytes x` (all translated from the same source in the same generated file).
 * `self.compute_confusion_matrix()` is `call_compute_cm self_` = `Observation.confusion_matrix (if is_trinary then 3 else 2)`
   of the object's spec / sens / class (AttributeError when one of the three attributes does not exist; no side effect):
   this is the piece `confusion` of harness/translate.py.
 * user values (`spec`, `sens`, the `value` of the two setters) are `Params.val`s (`V q` a finite number, `Bad` NaN / inf);
   `if not LO <= x <= HI: raise ...` on a user value is `match check_range LO HI x with None => raise | Some x => ...`
   (NumpyParams.check_range; afterwards x is a number), the same chained comparison inside a larger test is the boolean
   `py_between LO HI x`; a number read from an object becomes a user value by `V`.
 * numpy (exact arithmetic on `Qc`, a 2-D array is a list of rows): `np.sum(a, axis=1)` is `np_sum_axis1` (= map sumQ),
   `np.allclose(v, c)` is `np_allclose v c` = every |a - c| <= atol + rtol * |c| with numpy's defaults 1e-8, 1e-5 taken as
   the rationals 1/10^8, 1/10^5, `np.greater_equal(a, c)` / `np.less_equal(a, c)` are the boolean arrays, `np.all` is
   `np_all`, `a.shape[0]` is `np_shape0` (= length), `np.array_equal(a, b)` is `Linalg.mat_eqb` (same shape, equal entries),
   `a.tobytes()` is `np_tobytes a` = the entries in row-major order (`concat`; the shape is not part of the bytes;
   NumpyModalities.mod_key_bytes_inj shows that on confusion matrices the bytes determine the matrix).  IEEE details
   (-0.0 vs 0.0, NaN payloads) are outside the model.
 * Python's `hash` is ABSTRACT: `hash(<bytes>)` is the parameter `hash_bytes`, `hash((a, b, c))` the parameter `hash_tuple`,
   and the int literal `0` assigned to a variable that later holds hash values is the parameter `hash0`; the lemmas hold for
   every choice of the three (type `H`), in particular for the free term algebra `hterm`.
 * `__eq__(self, other)`: `other` is any Python object, read as `option mobj` (None = not an instance of `Modality`);
   `if not isinstance(other, Modality): return False` is the `match` on it.  The state is the PAIR (self, other); `self` and
   `other` are taken to be two different objects (for `x == x` the second read of the property finds the cache the first one
   filled: same value, same final cache).
 * Composite, LEAF pieces: `self._is_modality_leaf` is taken to be True (piece `mod_is_leaf` translates the property: it is
   True exactly when there are no children and `_modalities` exists); the code for composites with children is the subject of
   the BRANCH pieces, except in get_all_modalities / get_modality (the comparison of the children's dicts with a warning is
   NOT translated).  The leaf `self` IS its dict: `self._modalities` is the association list `self_` (name ->
   object, insertion ordered, unique keys), `d[k]` is `py_getitem` (KeyError), `d[k] = v` is `dict_set`, `del d[k]` is
   `py_delitem` (KeyError), `d.clear()` is `[]`, `d.items()` the list itself; `self.is_trinary` (an abstract property of the
   composite) is the parameter `tri`.  `get_all_modalities` returns the dict ITSELF and `get_modality` the object stored in
   it (aliases; in the functional reading a write to the returned object has to be stored back: lemma
   np_leaf_upd_modality_machine).
   `for name, modality in self._modalities.items(): BODY` (BODY uses only the object and rebinds one variable) is
   NumpyDist.py_for_items_d; `for name, modality in modalities.items(): BODY` over a dict PARAMETER, with BODY calling methods of
   `self`, is NumpyModalities.py_for_kv (both the leaf and the iterated objects are threaded, an exception stops the loop).
   The parameter `modalities` of replace_all_modalities is taken to be a dict OTHER than `self._modalities`
   (`x.replace_all_modalities(x.get_all_modalities())` would clear the dict it is about to iterate: outside the lemma).
 * Composite, BRANCH pieces (`self._is_modality_leaf` is False: the `else:` of the same `if`): the composite IS its dict
   `self._modality_children` (name -> child, threaded as `self_`, generic in the class `C` of the children);
   `for child in self._modality_children.values(): BODY` is NumpyDist.py_for_items_d (children replaced in place, an exception
   stops the loop); `child.set_modality(...)`, `child.del_modality(...)`, `child.replace_all_modalities(d)`,
   `child.clear_modalities()`, `child.modalities_hash()` are calls of ABSTRACT methods (function parameters `<name>_` of type
   C -> ... -> C * dres R); the lemmas assume that the child's method behaves like the model function (`sim`), which for a leaf
   child is what the leaf pieces prove.  The dict handed to `replace_all_modalities` is an opaque value passed on unchanged (that a
   leaf leaves it as it is, is part of gen_leaf_replace_all_modalities_eq).  `hash((a, b))` is the parameter `hash_pair`.
 * module level: only imports, classes and `MC = TypeVar(...)` (the translator checks it); `Modality` has no base class, no
   `__getattr__` / `__setattr__` / `__new__`, exactly the three properties with their setters, and no class-level attribute.
"""
from __future__ import annotations

import ast

from .translate import Untranslatable, _src, _strip_doc
from .translate2 import _attr_chain
from .translate5 import _assigned, _params, _reads, g
from .translate9 import _cls, _method

VAL, QC, BOOL, MAT, VEC, BMAT, NAT, STR, UNIT, HASH, BYTES, MOBJ, DICT, CLS = (
    "val", "Qc", "bool", "mat", "vec", "list (list bool)", "nat", "string", "unit", "H", "list Qc", "mobj",
    "list (string * mobj)", "cls")
DARG = "D"            # (branch methods) the dict handed on to every child, opaque
# methods of a child composite that a branch forwards to: name -> (parameter types, type of the value)
CHILD_METHODS = {"set_modality": ([STR, VAL, VAL, STR], UNIT), "del_modality": ([STR], UNIT),
                 "replace_all_modalities": ([DARG], UNIT), "clear_modalities": ([], UNIT), "modalities_hash": ([], HASH)}

# attributes of a Modality object: python name -> (reader, writer, type)
ATTRS = {"_spec": ("rd_spec", "set_spec", QC), "_sens": ("rd_sens", "set_sens", QC),
         "is_trinary": ("rd_tri", "set_tri", BOOL), "_confusion_matrix": ("rd_cm", "set_cm", MAT)}
# properties of a Modality object: python name -> (getter, type of the value, setter, type the setter accepts)
PROPS = {"spec": ("gen_spec_get", QC, "gen_spec_set", VAL), "sens": ("gen_sens_get", QC, "gen_sens_set", VAL),
         "confusion_matrix": ("gen_confusion_matrix", MAT, "gen_confusion_matrix_set", MAT)}


def _qlit(e):
    if isinstance(e, ast.Constant) and isinstance(e.value, float) and e.value in (0.0, 1.0):
        return f"{int(e.value)}%Qc"
    return None


def _natlit(e):
    if isinstance(e, ast.Constant) and isinstance(e.value, int) and not isinstance(e.value, bool) and e.value >= 0:
        return f"{e.value}"
    return None


def _between(e):
    """LO <= NAME <= HI with float literals 0.0 / 1.0 -> (lo, NAME, hi)"""
    if (isinstance(e, ast.Compare) and len(e.ops) == 2 and all(isinstance(o, ast.LtE) for o in e.ops)
            and isinstance(e.comparators[0], ast.Name)):
        lo, hi = _qlit(e.left), _qlit(e.comparators[1])
        if lo is not None and hi is not None:
            return lo, e.comparators[0].id, hi
    return None


class T:
    """statements  return E | raise ValueError(...) | NAME = E | NAME = 0 (a hash accumulator)
                   | if not LO <= X <= HI: raise ...        (X a user value; afterwards a number)
                   | if T: BLOCK-ending-in-return/raise | if T: BLOCK falling through (no return, no local assigned)
                   | if not isinstance(other, Modality): return False        (`other` any object; afterwards a Modality)
                   | X.PROP = E | X.ATTR = E | del self._confusion_matrix | self.check_confusion_matrix(E)
                   (leaf) | self._modalities[NAME] = E | del self._modalities[NAME] | self._modalities.clear()
                          | self.clear_modalities() | self.set_modality(E, E, E, E)
                          | for NAME, OBJ in self._modalities.items(): BODY | for NAME, OBJ in DICTPARAM.items(): BODY
       expressions names, 0.0 / 1.0, string literals, not / and (short-circuit), LO <= X <= HI, E == INT / E != INT,
                   E == "literal", A if T else B, hasattr(self, "_confusion_matrix"), isinstance(X, Pathological),
                   X.ATTR, X.PROP, E.shape[0], E.tobytes(), self.compute_confusion_matrix(), hash(E), hash((E, E, E)),
                   np.sum(E, axis=1), np.allclose(E, 1.0), np.all(E), np.greater_equal(E, 0.0), np.less_equal(E, 1.0),
                   np.array_equal(E, E), Pathological / Clinical, CLS(E, E, E),
                   (leaf) self._modalities, self.get_all_modalities(), E[NAME], self.is_trinary"""

    def __init__(self, env: dict, ret_ty: str, st: str = "self_", ctx: str = "modality"):
        self.env = dict(env)              # python name -> type
        self.ret_ty = ret_ty
        self.st = st                      # the Gallina pattern of everything that is threaded
        self.ctx = ctx                    # "modality": self is a Modality object | "leaf": self is a leaf composite
        self.any_obj = None               # python name of a parameter that may be any Python object (`other`)
        self.child = None                 # (branch methods, inside the loop) python name of the child composite
        self.used_methods = []            # (branch methods) the abstract methods of the children that are called
        self.n = 0

    def fresh(self) -> str:
        self.n += 1
        return f"x{self.n}"

    def ok(self, t: str) -> str:
        return f"({self.st}, inr {t})"

    def bind(self, term: str, obj: str, pat: str, cont: str) -> str:
        """run `term : <obj> * dres R` (it threads the object `obj`, a component of the state), continue with `cont`"""
        if term.startswith(("if ", "match ")):
            term = f"({term})"
        return f"match {term} with\n  | ({obj}, inl e) => ({self.st}, inl e)\n  | ({obj}, inr {pat}) =>\n  {cont}\n  end"

    def bind0(self, term: str, pat: str, cont: str) -> str:
        """`term : dres R` without a state"""
        return f"match {term} with\n  | inl e => ({self.st}, inl e)\n  | inr {pat} =>\n  {cont}\n  end"

    def is_obj(self, e) -> bool:
        """a Modality object that is threaded: `self` (in a Modality method) or a local of type mobj"""
        if not isinstance(e, ast.Name):
            return False
        if e.id == "self":
            return self.ctx == "modality"
        return self.env.get(e.id) == MOBJ

    # ---- expressions ---------------------------------------------------------------------------------------------------
    def ev(self, e, k) -> str:
        """evaluate e (effects and exceptions included) and continue with k(text of the value, type)"""
        q = _qlit(e)
        if q is not None:
            return k(q, QC)
        if isinstance(e, ast.Constant) and isinstance(e.value, str):
            if '"' in e.value:
                raise Untranslatable("string literal with a quote")
            return k(f'"{e.value}"', STR)
        if isinstance(e, ast.Constant) and isinstance(e.value, bool):
            return k("true" if e.value else "false", BOOL)
        if isinstance(e, ast.Name):
            if e.id in ("Pathological", "Clinical") and e.id not in self.env:
                return k("true" if e.id == "Pathological" else "false", CLS)
            if e.id in self.env and e.id != self.any_obj:
                return k(g(e.id), self.env[e.id])
            raise Untranslatable(f"name {e.id}")
        b = _between(e)
        if b is not None:
            lo, x, hi = b
            if self.env.get(x) != VAL:
                raise Untranslatable(f"chained comparison of {x} : {self.env.get(x)}")
            return k(f"(py_between {lo} {hi} {g(x)})", BOOL)
        if isinstance(e, ast.UnaryOp) and isinstance(e.op, ast.Not):
            def neg(t, ty):
                if ty != BOOL:
                    raise Untranslatable(f"not of a {ty}")
                return k(f"(negb {t})", BOOL)
            return self.ev(e.operand, neg)
        if isinstance(e, ast.BoolOp) and isinstance(e.op, ast.And) and len(e.values) == 2:
            # short-circuit: the second operand is only evaluated when the first one is true
            pa, pb = self.try_pure(e.values[0]), self.try_pure(e.values[1])
            if pa is not None and pb is not None:
                if (pa[1], pb[1]) != (BOOL, BOOL):
                    raise Untranslatable("and of a non-boolean")
                return k(f"({pa[0]} && {pb[0]})", BOOL)
            second, tb = self.eff(e.values[1])
            if tb != BOOL:
                raise Untranslatable("and of a non-boolean")

            def first(t, ty):
                if ty != BOOL:
                    raise Untranslatable("and of a non-boolean")
                return f"if {t} then {second} else {self.ok('false')}"
            x = self.fresh()
            return self.bind(self.ev(e.values[0], first), self.st, x, k(x, BOOL))
        if isinstance(e, ast.Compare) and len(e.ops) == 1 and isinstance(e.ops[0], (ast.Eq, ast.NotEq)):
            rhs = e.comparators[0]
            n = _natlit(rhs)

            def cmp(t, ty):
                if ty == NAT and n is not None:
                    r = f"(Nat.eqb {t} {n})"
                elif ty == STR and isinstance(rhs, ast.Constant) and isinstance(rhs.value, str) and '"' not in rhs.value:
                    r = f'(str_eqb {t} "{rhs.value}")'
                else:
                    raise Untranslatable(f"comparison of a {ty} with {ast.dump(rhs)[:80]}")
                return k(r if isinstance(e.ops[0], ast.Eq) else f"(negb {r})", BOOL)
            return self.ev(e.left, cmp)
        if isinstance(e, ast.IfExp):
            pt = self.try_pure(e.test)
            pa, pb = self.try_pure(e.body), self.try_pure(e.orelse)
            if pt is None or pa is None or pb is None or pt[1] != BOOL or pa[1] != pb[1]:
                raise Untranslatable("conditional expression: pure operands of one type expected")
            return k(f"(if {pt[0]} then {pa[0]} else {pb[0]})", pa[1])
        if isinstance(e, ast.Subscript):
            # E.shape[0]
            if (isinstance(e.value, ast.Attribute) and e.value.attr == "shape" and isinstance(e.slice, ast.Constant)
                    and e.slice.value == 0 and not isinstance(e.slice.value, bool)):
                def shape(t, ty):
                    if ty != MAT:
                        raise Untranslatable(f"shape of a {ty}")
                    return k(f"(np_shape0 {t})", NAT)
                return self.ev(e.value.value, shape)
            # D[NAME]
            if isinstance(e.slice, ast.Name) and self.env.get(e.slice.id) == STR:
                def item(t, ty):
                    if ty != DICT:
                        raise Untranslatable(f"subscript of a {ty}")
                    x = self.fresh()
                    return self.bind0(f"py_getitem {t} {g(e.slice.id)}", x, k(x, MOBJ))
                return self.ev(e.value, item)
        if isinstance(e, ast.Attribute):
            if self.ctx == "leaf" and _attr_chain(e) == ["self", "_modalities"]:
                return k("self_", DICT)
            if self.ctx == "leaf" and _attr_chain(e) == ["self", "is_trinary"]:
                return k("tri", BOOL)
            if self.is_obj(e.value):
                o, x = g(e.value.id), self.fresh()
                if e.attr in ATTRS:
                    return self.bind(f"{ATTRS[e.attr][0]} {o}", o, x, k(x, ATTRS[e.attr][2]))
                if e.attr in PROPS:
                    return self.bind(f"{PROPS[e.attr][0]} {o}", o, x, k(x, PROPS[e.attr][1]))
        if isinstance(e, ast.Call) and not e.keywords:
            f, a = e.func, e.args
            if isinstance(f, ast.Name) and f.id == "hasattr" and len(a) == 2 and self.is_obj(a[0]) \
                    and isinstance(a[1], ast.Constant) and a[1].value == "_confusion_matrix":
                return k(f"(py_hasattr (mo_cm {g(a[0].id)}))", BOOL)
            if isinstance(f, ast.Name) and f.id == "isinstance" and len(a) == 2 and self.is_obj(a[0]) \
                    and isinstance(a[1], ast.Name) and a[1].id == "Pathological":
                return k(f"(mo_path {g(a[0].id)})", BOOL)
            if isinstance(f, ast.Name) and f.id == "hash" and len(a) == 1:
                if self.is_obj(a[0]):
                    o, x = g(a[0].id), self.fresh()
                    return self.bind(f"gen_hash hash_bytes {o}", o, x, k(x, HASH))
                if isinstance(a[0], ast.Tuple) and len(a[0].elts) == 2 and self.ctx == "branch":
                    def p1(ta, tya):
                        def p2(tb, tyb):
                            if (tya, tyb) != (HASH, HASH):
                                raise Untranslatable(f"hash of a pair ({tya}, {tyb})")
                            return k(f"(hash_pair ({ta}, {tb}))", HASH)
                        return self.ev(a[0].elts[1], p2)
                    return self.ev(a[0].elts[0], p1)
                if isinstance(a[0], ast.Tuple) and len(a[0].elts) == 3 and self.ctx == "leaf":
                    def t1(ta, tya):
                        def t2(tb, tyb):
                            def t3(tc, tyc):
                                if (tya, tyb, tyc) != (HASH, STR, HASH):
                                    raise Untranslatable(f"hash of a tuple ({tya}, {tyb}, {tyc})")
                                return k(f"(hash_tuple ({ta}, {tb}, {tc}))", HASH)
                            return self.ev(a[0].elts[2], t3)
                        return self.ev(a[0].elts[1], t2)
                    return self.ev(a[0].elts[0], t1)

                def hb(t, ty):
                    if ty != BYTES:
                        raise Untranslatable(f"hash of a {ty}")
                    return k(f"(hash_bytes {t})", HASH)
                return self.ev(a[0], hb)
            if isinstance(f, ast.Name) and self.env.get(f.id) == CLS and len(a) == 3:
                # CLS(spec, sens, is_trinary): a new object, then Modality.__init__
                def c1(ta, tya):
                    def c2(tb, tyb):
                        def c3(tc, tyc):
                            if (tya, tyb, tyc) != (VAL, VAL, BOOL):
                                raise Untranslatable(f"constructor arguments ({tya}, {tyb}, {tyc})")
                            x = self.fresh()
                            return self.bind0(f"py_construct (gen_init (mo_new {g(f.id)}) {ta} {tb} {tc})", x, k(x, MOBJ))
                        return self.ev(a[2], c3)
                    return self.ev(a[1], c2)
                return self.ev(a[0], c1)
            ch = _attr_chain(f)
            if self.child is not None and ch is not None and len(ch) == 2 and ch[0] == self.child and ch[1] in CHILD_METHODS:
                ptys, rty = CHILD_METHODS[ch[1]]
                if len(a) != len(ptys):
                    raise Untranslatable(f"{ch[1]}: {len(a)} arguments")
                got = []
                for x, ty in zip(a, ptys):
                    p_ = self.try_pure(x)
                    if p_ is None or p_[1] != ty:
                        raise Untranslatable(f"{ch[1]}: argument {ast.unparse(x)} is not a pure {ty}")
                    got.append(p_[0])
                if ch[1] not in self.used_methods:
                    self.used_methods.append(ch[1])
                c_, x = g(self.child), self.fresh()
                return self.bind(f"{ch[1]}_ {c_}" + "".join(" " + t for t in got), c_, x, k(x, rty))
            if ch == ["self", "compute_confusion_matrix"] and not a and self.ctx == "modality":
                x = self.fresh()
                return self.bind("call_compute_cm self_", "self_", x, k(x, MAT))
            if ch == ["self", "get_all_modalities"] and not a and self.ctx == "leaf":
                x = self.fresh()
                return self.bind("gen_leaf_get_all_modalities self_", "self_", x, k(x, DICT))
            if isinstance(f, ast.Attribute) and f.attr == "tobytes" and not a:
                def tb_(t, ty):
                    if ty != MAT:
                        raise Untranslatable(f"tobytes of a {ty}")
                    return k(f"(np_tobytes {t})", BYTES)
                return self.ev(f.value, tb_)
            if ch is not None and ch[0] == "np" and len(ch) == 2:
                return self.numpy(ch[1], a, k)
        if (isinstance(e, ast.Call) and _attr_chain(e.func) == ["np", "sum"] and len(e.args) == 1 and len(e.keywords) == 1
                and e.keywords[0].arg == "axis" and isinstance(e.keywords[0].value, ast.Constant) and e.keywords[0].value.value == 1
                and not isinstance(e.keywords[0].value.value, bool)):
            def sm(t, ty):
                if ty != MAT:
                    raise Untranslatable(f"np.sum(axis=1) of a {ty}")
                return k(f"(np_sum_axis1 {t})", VEC)
            return self.ev(e.args[0], sm)
        raise Untranslatable(f"expression {ast.dump(e)[:200]}")

    def numpy(self, fn: str, a, k) -> str:
        sigs = {"allclose": (VEC, BOOL, "np_allclose"), "greater_equal": (MAT, BMAT, "np_greater_equal"),
                "less_equal": (MAT, BMAT, "np_less_equal")}
        if fn in sigs and len(a) == 2:
            want, res, name = sigs[fn]
            c = _qlit(a[1])
            if c is None:
                raise Untranslatable(f"np.{fn}: the second argument is not 0.0 / 1.0")

            def one(t, ty):
                if ty != want:
                    raise Untranslatable(f"np.{fn} of a {ty}")
                return k(f"({name} {t} {c})", res)
            return self.ev(a[0], one)
        if fn == "all" and len(a) == 1:
            def al(t, ty):
                if ty != BMAT:
                    raise Untranslatable(f"np.all of a {ty}")
                return k(f"(np_all {t})", BOOL)
            return self.ev(a[0], al)
        if fn == "array_equal" and len(a) == 2:
            def e1(ta, tya):
                def e2(tb, tyb):
                    if (tya, tyb) != (MAT, MAT):
                        raise Untranslatable(f"np.array_equal({tya}, {tyb})")
                    return k(f"(np_array_equal {ta} {tb})", BOOL)
                return self.ev(a[1], e2)
            return self.ev(a[0], e1)
        raise Untranslatable(f"np.{fn}")

    def try_pure(self, e):
        """(text, type) when the expression is translated without any `match` (no effect, no exception), else None"""
        box = {}

        def k(t, ty):
            box["r"] = (t, ty)
            return "@@PURE@@"
        saved = self.n
        if self.ev(e, k) == "@@PURE@@":
            return box["r"]
        self.n = saved
        return None

    def eff(self, e):
        """-> (closed term of type STATE * dres T, T)"""
        box = {}

        def k(t, ty):
            box["ty"] = ty
            return self.ok(t)
        term = self.ev(e, k)
        return term, box["ty"]

    # ---- statements ----------------------------------------------------------------------------------------------------
    @staticmethod
    def check_raise(s):
        ok = (isinstance(s.exc, ast.Call) and isinstance(s.exc.func, ast.Name) and s.exc.func.id == "ValueError" and s.cause is None)
        if not ok:
            raise Untranslatable("only `raise ValueError(...)`")

    def raised(self) -> str:
        return f"({self.st}, inl DValue)"

    def block(self, stmts, fall) -> str:
        """`fall`: the term when the block falls through (None = not allowed)"""
        if not stmts:
            if fall is None:
                raise Untranslatable("block falls through")
            return fall
        s, rest = stmts[0], stmts[1:]
        nxt = lambda: self.block(rest, fall)  # noqa: E731
        if isinstance(s, ast.Return):
            if rest or s.value is None:
                raise Untranslatable("code after return / bare return")

            def ret(t, ty):
                if ty != self.ret_ty:
                    raise Untranslatable(f"returns a {ty}, expected {self.ret_ty}")
                return self.ok(t)
            return self.ev(s.value, ret)
        if isinstance(s, ast.Raise):
            if rest:
                raise Untranslatable("code after raise")
            self.check_raise(s)
            return self.raised()
        if isinstance(s, ast.Delete) and len(s.targets) == 1:
            tg = s.targets[0]
            if _attr_chain(tg) == ["self", "_confusion_matrix"] and self.ctx == "modality":
                return self.bind("del_cm self_", "self_", "_", nxt())
            if (isinstance(tg, ast.Subscript) and _attr_chain(tg.value) == ["self", "_modalities"] and self.ctx == "leaf"
                    and isinstance(tg.slice, ast.Name) and self.env.get(tg.slice.id) == STR):
                x = self.fresh()
                return self.bind0(f"py_delitem self_ {g(tg.slice.id)}", x, f"let self_ := {x} in\n  {nxt()}")
            raise Untranslatable("only `del self._confusion_matrix` / `del self._modalities[NAME]`")
        if isinstance(s, ast.If) and not s.orelse:
            # if not LO <= X <= HI: raise ...      (X a user value)
            if isinstance(s.test, ast.UnaryOp) and isinstance(s.test.op, ast.Not) and _between(s.test.operand) is not None \
                    and len(s.body) == 1 and isinstance(s.body[0], ast.Raise):
                lo, x, hi = _between(s.test.operand)
                if self.env.get(x) != VAL:
                    raise Untranslatable(f"range check of {x} : {self.env.get(x)}")
                self.check_raise(s.body[0])
                self.env[x] = QC
                return f"match check_range {lo} {hi} {g(x)} with\n  | None => {self.raised()}\n  | Some {g(x)} =>\n  {nxt()}\n  end"
            # if not isinstance(other, Modality): return False
            t = s.test
            if (self.any_obj is not None and isinstance(t, ast.UnaryOp) and isinstance(t.op, ast.Not)
                    and isinstance(t.operand, ast.Call) and isinstance(t.operand.func, ast.Name) and t.operand.func.id == "isinstance"
                    and len(t.operand.args) == 2 and not t.operand.keywords and isinstance(t.operand.args[0], ast.Name)
                    and t.operand.args[0].id == self.any_obj and isinstance(t.operand.args[1], ast.Name)
                    and t.operand.args[1].id == "Modality"):
                o = self.any_obj
                if not (len(s.body) == 1 and isinstance(s.body[0], ast.Return)):
                    raise Untranslatable(f"`if not isinstance({o}, Modality):` must be followed by exactly one return")
                saved = self.st
                self.st = saved.replace(g(o), "None")
                then = self.block(s.body, None)
                self.st = saved.replace(g(o), f"Some {g(o)}")
                self.any_obj = None
                self.env[o] = MOBJ
                return f"match {g(o)} with\n  | None => {then}\n  | Some {g(o)} =>\n  {nxt()}\n  end"
            if isinstance(s.body[-1], (ast.Return, ast.Raise)):
                def early(t, ty):
                    if ty != BOOL:
                        raise Untranslatable("test is not boolean")
                    saved = dict(self.env)
                    then = self.block(s.body, None)
                    self.env = saved
                    return f"if {t} then\n  {then}\n  else\n  {nxt()}"
                return self.ev(s.test, early)
            if any(isinstance(n, (ast.Return, ast.Continue, ast.Break)) for x in s.body for n in ast.walk(x)):
                raise Untranslatable("return / continue / break inside an `if` that falls through")
            if [n for n in _assigned(s.body) if n != "self"]:
                raise Untranslatable("a local variable is assigned inside an `if` that falls through")

            def through(t, ty):
                if ty != BOOL:
                    raise Untranslatable("test is not boolean")
                saved = dict(self.env)
                then = self.block(s.body, self.ok("tt"))
                self.env = saved
                return self.bind(f"(if {t} then\n  {then}\n  else {self.ok('tt')})", self.st, "_", nxt())
            return self.ev(s.test, through)
        if isinstance(s, ast.For):
            return self.loop(s, rest, fall)
        if isinstance(s, ast.Expr) and isinstance(s.value, ast.Call) and not s.value.keywords:
            ch, a = _attr_chain(s.value.func), s.value.args
            if self.child is not None and ch is not None and ch[0] == self.child:
                def dropped(t, ty):
                    if ty != UNIT:
                        raise Untranslatable("the value of a call is dropped")
                    return nxt()
                return self.ev(s.value, dropped)
            if ch == ["self", "check_confusion_matrix"] and len(a) == 1 and self.ctx == "modality":
                def chk(t, ty):
                    if ty != MAT:
                        raise Untranslatable(f"check_confusion_matrix of a {ty}")
                    return self.bind(f"gen_check_confusion_matrix self_ {t}", "self_", "_", nxt())
                return self.ev(a[0], chk)
            if ch == ["self", "_modalities", "clear"] and not a and self.ctx == "leaf":
                return f"let self_ := ([] : {DICT}) in\n  {nxt()}"
            if ch == ["self", "clear_modalities"] and not a and self.ctx == "leaf":
                return self.bind("gen_leaf_clear_modalities self_", "self_", "_", nxt())
            if ch == ["self", "set_modality"] and len(a) == 4 and self.ctx == "leaf":
                want = (STR, VAL, VAL, STR)
                got = []

                def arg(i):
                    if i == 4:
                        return self.bind("gen_leaf_set_modality tri self_ " + " ".join(got), "self_", "_", nxt())

                    def one(t, ty):
                        if ty == QC and want[i] == VAL:
                            t, ty = f"(V {t})", VAL       # a number read from an object becomes a user value
                        if ty != want[i]:
                            raise Untranslatable(f"set_modality: argument {i} is a {ty}, expected {want[i]}")
                        got.append(t)
                        return arg(i + 1)
                    return self.ev(a[i], one)
                return arg(0)
        if isinstance(s, ast.Assign) and len(s.targets) == 1:
            tg, v = s.targets[0], s.value
            if isinstance(tg, ast.Name):
                if tg.id == "self" or tg.id == self.any_obj or self.env.get(tg.id) in (MOBJ, DICT):
                    raise Untranslatable(f"assignment to {tg.id}")
                if _natlit(v) == "0" and self._holds_hash(tg.id, rest):
                    self.env[tg.id] = HASH
                    return f"let {g(tg.id)} := hash0 in\n  {nxt()}"
                if _attr_chain(v) is not None and len(_attr_chain(v)) > 1 and self.ctx == "modality":
                    raise Untranslatable(f"{tg.id} = {ast.unparse(v)}: a local alias of an attribute")

                def assign(t, ty):
                    if ty in (MOBJ, DICT):
                        raise Untranslatable(f"{tg.id} would be an alias of an object")
                    if tg.id in self.env and self.env[tg.id] != ty:
                        raise Untranslatable(f"the type of {tg.id} changes")
                    self.env[tg.id] = ty
                    return f"let {g(tg.id)} := {t} in\n  {nxt()}"
                return self.ev(v, assign)
            if isinstance(tg, ast.Attribute) and isinstance(tg.value, ast.Name) and tg.value.id == "self" and self.ctx == "modality":
                if tg.attr in PROPS:
                    _, _, setter, want = PROPS[tg.attr]

                    def pset(t, ty):
                        if ty != want:
                            raise Untranslatable(f"self.{tg.attr} = <{ty}>")
                        return self.bind(f"{setter} self_ {t}", "self_", "_", nxt())
                    return self.ev(v, pset)
                if tg.attr in ATTRS:
                    _, writer, want = ATTRS[tg.attr]

                    def aset(t, ty):
                        if ty != want:
                            raise Untranslatable(f"self.{tg.attr} = <{ty}>")
                        return f"let self_ := {writer} self_ {t} in\n  {nxt()}"
                    return self.ev(v, aset)
            if (isinstance(tg, ast.Subscript) and _attr_chain(tg.value) == ["self", "_modalities"] and self.ctx == "leaf"
                    and isinstance(tg.slice, ast.Name) and self.env.get(tg.slice.id) == STR):
                if isinstance(v, ast.Name):
                    raise Untranslatable(f"self._modalities[...] = {v.id}: the dict would hold an alias of another object")

                def dset(t, ty):
                    if ty != MOBJ:
                        raise Untranslatable(f"self._modalities[...] = <{ty}>")
                    return f"let self_ := dict_set {g(tg.slice.id)} {t} self_ in\n  {nxt()}"
                return self.ev(v, dset)
        raise Untranslatable(f"statement {type(s).__name__}: {ast.dump(s)[:160]}")

    @staticmethod
    def _holds_hash(name, stmts) -> bool:
        for s in stmts:
            for n in ast.walk(s):
                if (isinstance(n, ast.Assign) and len(n.targets) == 1 and isinstance(n.targets[0], ast.Name) and n.targets[0].id == name
                        and isinstance(n.value, ast.Call) and isinstance(n.value.func, ast.Name) and n.value.func.id == "hash"):
                    return True
        return False

    def branch_loop(self, s: ast.For, rest, fall) -> str:
        """for CHILD in self._modality_children.values(): BODY   (BODY calls methods of the child, at most one variable is carried)"""
        ok = (not s.orelse and self.st == "self_" and isinstance(s.iter, ast.Call) and not s.iter.args and not s.iter.keywords
              and _attr_chain(s.iter.func) == ["self", "_modality_children", "values"] and isinstance(s.target, ast.Name))
        if not ok:
            raise Untranslatable("loop is not `for CHILD in self._modality_children.values()`")
        child = s.target.id
        if child in self.env or child == "self" or self.child is not None:
            raise Untranslatable("the loop variable shadows another variable / nested loop")
        if any(isinstance(n, (ast.Return, ast.Break, ast.Continue, ast.Raise, ast.Try, ast.For, ast.While)) for x in s.body for n in ast.walk(x)):
            raise Untranslatable("return / break / continue / raise / try / loop inside the loop")
        if "self" in _reads(s.body):
            raise Untranslatable("the body of the loop over the children uses self")
        assigned = _assigned(s.body)
        carried = [n for n in assigned if n in self.env]
        local = [n for n in assigned if n not in self.env]
        if child in assigned or len(carried) > 1 or ({child} | set(local)) & _reads(rest):
            raise Untranslatable(f"loop over the children: assigned {assigned}")
        before = dict(self.env)
        self.child, self.st = child, g(child)
        c = g(carried[0]) if carried else "tt"
        body = self.block(list(s.body), self.ok(c))
        if carried and self.env[carried[0]] != before[carried[0]]:
            raise Untranslatable(f"the type of {carried[0]} changes in the loop")
        self.env, self.child, self.st = before, None, "self_"
        binder = g(carried[0]) if carried else "(_ : unit)"
        return self.bind(f"py_for_items_d (fun _ {g(child)} {binder} =>\n  {body}) self_ {c}", "self_", g(carried[0]) if carried else "_",
                         self.block(rest, fall))

    def loop(self, s: ast.For, rest, fall) -> str:
        if self.ctx == "branch":
            return self.branch_loop(s, rest, fall)
        ok = (not s.orelse and self.ctx == "leaf" and self.st in ("self_", "(self_, modalities_)") and isinstance(s.iter, ast.Call)
              and not s.iter.args and not s.iter.keywords and isinstance(s.iter.func, ast.Attribute) and s.iter.func.attr == "items"
              and isinstance(s.target, ast.Tuple) and len(s.target.elts) == 2 and all(isinstance(x, ast.Name) for x in s.target.elts))
        if not ok:
            raise Untranslatable("loop is not `for NAME, OBJ in <dict>.items()` in a leaf method")
        key, obj = (x.id for x in s.target.elts)
        if key in self.env or obj in self.env or key == obj or "self" in (key, obj):
            raise Untranslatable("loop variables shadow other variables")
        if any(isinstance(n, (ast.Return, ast.Break, ast.Continue, ast.Raise, ast.Try, ast.For, ast.While)) for x in s.body for n in ast.walk(x)):
            raise Untranslatable("return / break / continue / raise / try / loop inside the loop")
        assigned = _assigned(s.body)
        if {key, obj} & set(assigned):
            raise Untranslatable("the loop variables are assigned in the body")
        carried = [n for n in assigned if n in self.env]
        local = [n for n in assigned if n not in self.env]
        if ({key, obj} | set(local)) & _reads(rest):
            raise Untranslatable("a variable of the loop body is used after the loop")
        src = s.iter.func.value
        before = dict(self.env)
        outer = self.st
        if _attr_chain(src) == ["self", "_modalities"] and outer == "self_":
            # the leaf's own dict: the body may only use the object, one variable is carried
            if "self" in _reads(s.body):
                raise Untranslatable("the body of a loop over self._modalities uses self")
            if len(carried) != 1:
                raise Untranslatable(f"loop-carried variables {carried}")
            c = carried[0]
            self.env.update({key: STR, obj: MOBJ})
            self.st = g(obj)
            body = self.block(list(s.body), self.ok(g(c)))
            if self.env[c] != before[c]:
                raise Untranslatable(f"the type of {c} changes in the loop")
            self.env, self.st = before, outer
            return self.bind(f"py_for_items_d (fun {g(key)} {g(obj)} {g(c)} =>\n  {body}) self_ {g(c)}", "self_", g(c), self.block(rest, fall))
        if isinstance(src, ast.Name) and src.id == "modalities" and self.env.get(src.id) == DICT and outer == "(self_, modalities_)":
            # a dict parameter: the leaf and the iterated objects are threaded, nothing else is carried
            if carried or src.id in _reads(s.body):
                raise Untranslatable("loop over a dict parameter: a variable is carried / the dict is used in the body")
            self.env.update({key: STR, obj: MOBJ})
            self.st = f"(self_, {g(obj)})"
            body = self.block(list(s.body), self.ok("tt"))
            self.env, self.st = before, outer
            return self.bind(f"py_for_kv (fun {g(key)} {g(obj)} self_ =>\n  {body}) {g(src.id)} self_", outer, "_", self.block(rest, fall))
        raise Untranslatable(f"loop over {ast.dump(src)[:120]}")


# ----------------------------------------------------------------------------------------------------------------------
# the classes
# ----------------------------------------------------------------------------------------------------------------------
def _tree():
    tree = ast.parse(_src("lymph/modalities.py"))
    # module level: imports, classes and `MC = TypeVar(...)` only (nothing that could rebind np / hash / a method)
    for n in tree.body:
        ok = (isinstance(n, (ast.Import, ast.ImportFrom, ast.ClassDef))
              or (isinstance(n, ast.Expr) and isinstance(n.value, ast.Constant))
              or (isinstance(n, ast.Assign) and len(n.targets) == 1 and isinstance(n.targets[0], ast.Name)
                  and isinstance(n.value, ast.Call) and isinstance(n.value.func, ast.Name) and n.value.func.id == "TypeVar"))
        if not ok:
            raise Untranslatable(f"module-level statement {ast.unparse(n)[:80]}")
    if not any(isinstance(n, ast.Import) and any(a.name == "numpy" and a.asname == "np" for a in n.names) for n in tree.body):
        raise Untranslatable("`import numpy as np` not found")
    bound = {a.asname or a.name.split(".")[0] for n in tree.body if isinstance(n, (ast.Import, ast.ImportFrom)) for a in n.names}
    bound |= {n.targets[0].id for n in tree.body if isinstance(n, ast.Assign)}
    if bound & {"hash", "hasattr", "isinstance", "len", "super", "Modality", "Clinical", "Pathological", "Composite"}:
        raise Untranslatable("a builtin / class name is rebound at module level")
    top = [n.name for n in tree.body if isinstance(n, ast.ClassDef)]
    if sorted(top) != sorted(set(top)):
        raise Untranslatable("a class is defined twice")
    return tree


def _modality_cls(tree):
    """the class Modality, after checking that attribute accesses on its instances mean what the module docstring says"""
    mod = _cls(tree, "Modality")
    if mod.bases or mod.keywords or mod.decorator_list:
        raise Untranslatable("Modality has base classes / a metaclass / decorators")
    seen = {}
    for n in mod.body:
        if isinstance(n, ast.FunctionDef):
            if n.name in ("__getattr__", "__getattribute__", "__setattr__", "__delattr__", "__new__", "__init_subclass__"):
                raise Untranslatable(f"Modality defines {n.name}")
            seen.setdefault(n.name, []).append([ast.unparse(d) for d in n.decorator_list])
        elif not (isinstance(n, ast.Expr) and isinstance(n.value, ast.Constant)):
            raise Untranslatable(f"Modality: class-level statement {type(n).__name__}")
    for p in PROPS:                        # a getter and a setter, nothing else
        if sorted(seen.get(p, [])) != sorted([["property"], [f"{p}.setter"]]):
            raise Untranslatable(f"Modality.{p} is not a property with a setter")
    for a in ATTRS:                        # plain attributes
        if a in seen:
            raise Untranslatable(f"Modality.{a} is defined in the class")
    for m in ("__init__", "__hash__", "__eq__", "check_confusion_matrix", "compute_confusion_matrix"):
        if seen.get(m) != [[]]:
            raise Untranslatable(f"Modality.{m}: expected exactly one undecorated definition")
    for sub in ("Clinical", "Pathological"):
        c = _cls(tree, sub)
        if [ast.unparse(b) for b in c.bases] != ["Modality"] or c.keywords or c.decorator_list:
            raise Untranslatable(f"{sub} is not a plain subclass of Modality")
        for n in c.body:
            if isinstance(n, ast.Expr) and isinstance(n.value, ast.Constant):
                continue
            if not (isinstance(n, ast.FunctionDef) and n.name == "compute_confusion_matrix" and not n.decorator_list):
                raise Untranslatable(f"{sub} defines something else than compute_confusion_matrix")
    return mod


SELF = "(self_ : mobj)"


def _modality_method(mod, name: str) -> str:
    if name in ("spec_get", "sens_get"):
        p = name[:4]
        fn = _method(mod, p, "property")
        _params(fn, ["self"])
        return f"Definition gen_{name} {SELF} : mobj * dres Qc :=\n  {T({}, QC).block(_strip_doc(fn.body), None)}.\n"
    if name in ("spec_set", "sens_set"):
        p = name[:4]
        fn = _method(mod, p, f"{p}.setter")
        a = [x.arg for x in fn.args.args]
        if len(a) != 2:
            raise Untranslatable(f"{p} setter: signature {a}")
        _params(fn, a)
        t = T({a[1]: VAL}, UNIT)
        return f"Definition gen_{name} {SELF} ({g(a[1])} : val) : mobj * dres unit :=\n  {t.block(_strip_doc(fn.body), t.ok('tt'))}.\n"
    if name == "init":
        fn = _method(mod, "__init__", None)
        _params(fn, ["self", "spec", "sens", "is_trinary"], [False])
        t = T({"spec": VAL, "sens": VAL, "is_trinary": BOOL}, UNIT)
        return (f"Definition gen_init {SELF} (spec_ sens_ : val) (is_trinary_ : bool) : mobj * dres unit :=\n  "
                f"{t.block(_strip_doc(fn.body), t.ok('tt'))}.\n")
    if name == "check_confusion_matrix":
        fn = _method(mod, "check_confusion_matrix", None)
        _params(fn, ["self", "value"])
        t = T({"value": MAT}, UNIT)
        return (f"Definition gen_check_confusion_matrix {SELF} (value_ : mat) : mobj * dres unit :=\n  "
                f"{t.block(_strip_doc(fn.body), t.ok('tt'))}.\n")
    if name == "confusion_matrix_set":
        fn = _method(mod, "confusion_matrix", "confusion_matrix.setter")
        _params(fn, ["self", "value"])
        t = T({"value": MAT}, UNIT)
        return (f"Definition gen_confusion_matrix_set {SELF} (value_ : mat) : mobj * dres unit :=\n  "
                f"{t.block(_strip_doc(fn.body), t.ok('tt'))}.\n")
    if name == "confusion_matrix":
        fn = _method(mod, "confusion_matrix", "property")
        _params(fn, ["self"])
        return f"Definition gen_confusion_matrix {SELF} : mobj * dres mat :=\n  {T({}, MAT).block(_strip_doc(fn.body), None)}.\n"
    if name == "hash":
        fn = _method(mod, "__hash__", None)
        _params(fn, ["self"])
        return ("Definition gen_hash {H : Type} (hash_bytes : list Qc -> H) " + SELF + " : mobj * dres H :=\n  "
                f"{T({}, HASH).block(_strip_doc(fn.body), None)}.\n")
    if name == "eq":
        fn = _method(mod, "__eq__", None)
        _params(fn, ["self", "other"])
        t = T({"other": "object"}, BOOL, st="(self_, other_)")
        t.any_obj = "other"
        return (f"Definition gen_eq {SELF} (other_ : option mobj) : (mobj * option mobj) * dres bool :=\n  "
                f"{t.block(_strip_doc(fn.body), None)}.\n")
    raise Untranslatable(name)


def _defs(mod, *names) -> str:
    return "".join(_modality_method(mod, n) for n in names)


CM = ("check_confusion_matrix", "confusion_matrix_set", "confusion_matrix")


def translate_init() -> str:
    mod = _modality_cls(_tree())
    return (_defs(mod, "spec_set", "sens_set", "init")
            + "Lemma gen_init_np : forall o sp sn tri, gen_init o sp sn tri = np_init o sp sn tri.\nProof. intros. reflexivity. Qed.\n"
              "Lemma gen_init_eq : forall p spec sens tri,\n"
              "  gen_init (mo_new p) spec sens tri\n"
              "  = match mk_modality spec sens p with\n"
              "    | None => (mo_new p, inl DValue)\n"
              "    | Some m => (obj_of tri m None, inr tt)\n"
              "    end.\n"
              "Proof. intros. rewrite gen_init_np. apply np_init_eq. Qed.\n")


def translate_spec_sens() -> str:
    mod = _modality_cls(_tree())
    return (_defs(mod, "spec_get", "sens_get", "spec_set", "sens_set")
            + "Lemma gen_spec_sens_np : forall o v, gen_spec_get o = np_spec_get o /\\ gen_sens_get o = np_sens_get o /\\\n"
              "  gen_spec_set o v = np_spec_set o v /\\ gen_sens_set o v = np_sens_set o v.\n"
              "Proof. intros. repeat split; reflexivity. Qed.\n"
              "Lemma gen_spec_sens_eq : forall tri m c q,\n"
              "  gen_spec_get (obj_of tri m c) = (obj_of tri m c, inr (m_spec m)) /\\\n"
              "  gen_sens_get (obj_of tri m c) = (obj_of tri m c, inr (m_sens m)) /\\\n"
              "  gen_spec_set (obj_of tri m c) (V q)\n"
              "  = match uni_apply_mupd (true, q) m with None => (obj_of tri m c, inl DValue) | Some m' => (obj_of tri m' None, inr tt) end /\\\n"
              "  gen_sens_set (obj_of tri m c) (V q)\n"
              "  = match uni_apply_mupd (false, q) m with None => (obj_of tri m c, inl DValue) | Some m' => (obj_of tri m' None, inr tt) end /\\\n"
              "  gen_spec_set (obj_of tri m c) Bad = (obj_of tri m c, inl DValue) /\\ gen_sens_set (obj_of tri m c) Bad = (obj_of tri m c, inl DValue).\n"
              "Proof. intros tri m c q. destruct (gen_spec_sens_np (obj_of tri m c) (V q)) as (-> & -> & -> & ->).\n"
              "  destruct (gen_spec_sens_np (obj_of tri m c) Bad) as (_ & _ & -> & ->). apply np_spec_sens_eq. Qed.\n")


def translate_check() -> str:
    mod = _modality_cls(_tree())
    return (_defs(mod, "check_confusion_matrix")
            + "Lemma gen_check_confusion_matrix_np : forall o v, gen_check_confusion_matrix o v = np_check_confusion_matrix o v.\n"
              "Proof. intros. reflexivity. Qed.\n"
              "Lemma gen_check_confusion_matrix_eq : forall tri m c v,\n"
              "  gen_check_confusion_matrix (obj_of tri m c) v = (obj_of tri m c, if cm_valid tri v then inr tt else inl DValue)\n"
              "  /\\ (mod_ok m = true -> cm_valid tri (confusion_matrix (base_of tri) m) = true)\n"
              "  /\\ cm_valid tri (confusion_matrix (base_of (negb tri)) m) = false.\n"
              "Proof. intros tri m c v. rewrite gen_check_confusion_matrix_np. split; [apply np_check_confusion_matrix_eq|].\n"
              "  split; [apply cm_valid_confusion | apply cm_valid_wrong_arity]. Qed.\n")


def translate_cm_set() -> str:
    mod = _modality_cls(_tree())
    return (_defs(mod, "check_confusion_matrix", "confusion_matrix_set")
            + "Lemma gen_confusion_matrix_set_np : forall o v, gen_confusion_matrix_set o v = np_confusion_matrix_set o v.\n"
              "Proof. intros. reflexivity. Qed.\n"
              "Lemma gen_confusion_matrix_set_eq : forall tri m c v,\n"
              "  gen_confusion_matrix_set (obj_of tri m c) v\n"
              "  = if cm_valid tri v then (obj_of tri m (Some v), inr tt) else (obj_of tri m c, inl DValue).\n"
              "Proof. intros. rewrite gen_confusion_matrix_set_np. apply np_confusion_matrix_set_eq. Qed.\n")


def translate_cm() -> str:
    mod = _modality_cls(_tree())
    return (_defs(mod, *CM)
            + "Lemma gen_confusion_matrix_np : forall o, gen_confusion_matrix o = np_confusion_matrix o.\nProof. intros. reflexivity. Qed.\n"
              "Lemma gen_confusion_matrix_eq : forall tri m c, mod_ok m = true -> cm_cache_ok tri m c ->\n"
              "  gen_confusion_matrix (obj_of tri m c)\n"
              "  = (obj_of tri m (Some (confusion_matrix (base_of tri) m)), inr (confusion_matrix (base_of tri) m)).\n"
              "Proof. intros. rewrite gen_confusion_matrix_np. apply np_confusion_matrix_eq; assumption. Qed.\n"
              "Lemma gen_confusion_matrix_machine : forall tri (s : graph * nat) (n : string) m c, g_base (fst s) = base_of tri -> mod_ok m = true ->\n"
              "  (forall x, c = Some x -> x = sg_cm uni_sig s m) ->\n"
              "  gen_confusion_matrix (obj_of tri m c)\n"
              "  = (obj_of tri m (Some (cm_read uni_sig s (n, (m, c)))), inr (cm_read uni_sig s (n, (m, c)))).\n"
              "Proof. intros. rewrite gen_confusion_matrix_np. apply np_confusion_matrix_machine; assumption. Qed.\n")


def translate_hash() -> str:
    mod = _modality_cls(_tree())
    return (_defs(mod, *CM, "hash")
            + "Lemma gen_hash_np : forall H (hb : list Qc -> H) o, gen_hash hb o = np_hash hb o.\nProof. intros. reflexivity. Qed.\n"
              "Lemma gen_hash_eq : forall H (hb : list Qc -> H) tri m c, mod_ok m = true -> cm_cache_ok tri m c ->\n"
              "  gen_hash hb (obj_of tri m c)\n"
              "  = (obj_of tri m (Some (confusion_matrix (base_of tri) m)), inr (hb (np_tobytes (mod_key (base_of tri) m)))).\n"
              "Proof. intros. rewrite gen_hash_np. apply np_hash_eq; assumption. Qed.\n"
              "Lemma gen_hash_key_inj : forall b1 b2 m1 m2,\n"
              "  np_tobytes (mod_key b1 m1) = np_tobytes (mod_key b2 m2) <-> mod_key b1 m1 = mod_key b2 m2.\n"
              "Proof. apply mod_key_bytes_inj. Qed.\n")


def translate_eq() -> str:
    mod = _modality_cls(_tree())
    return (_defs(mod, *CM, "eq")
            + "Lemma gen_eq_np : forall o other, gen_eq o other = np_eq o other.\nProof. intros. reflexivity. Qed.\n"
              "Lemma gen_eq_eq : forall t1 t2 m1 m2 c1 c2, mod_ok m1 = true -> mod_ok m2 = true -> cm_cache_ok t1 m1 c1 -> cm_cache_ok t2 m2 c2 ->\n"
              "  gen_eq (obj_of t1 m1 c1) (Some (obj_of t2 m2 c2))\n"
              "  = ((obj_of t1 m1 (Some (confusion_matrix (base_of t1) m1)), Some (obj_of t2 m2 (Some (confusion_matrix (base_of t2) m2)))),\n"
              "     inr (mod_eq2 (base_of t1) (base_of t2) m1 m2))\n"
              "  /\\ (t1 = t2 -> mod_eq2 (base_of t1) (base_of t2) m1 m2 = mod_eq (base_of t1) m1 m2)\n"
              "  /\\ gen_eq (obj_of t1 m1 c1) None = ((obj_of t1 m1 c1, None), inr false).\n"
              "Proof. intros. rewrite !gen_eq_np. apply np_eq_eq; assumption. Qed.\n")


# ----------------------------------------------------------------------------------------------------------------------
# Composite: the leaf branch
# ----------------------------------------------------------------------------------------------------------------------
def _method2(cls, name, decos):
    found = [n for n in cls.body if isinstance(n, ast.FunctionDef) and n.name == name
             and [ast.unparse(d) for d in n.decorator_list] == decos]
    if len(found) != 1 or sum(1 for n in cls.body if isinstance(n, ast.FunctionDef) and n.name == name) != 1:
        raise Untranslatable(f"{cls.name}.{name} with decorators {decos}: found {len(found)} definitions")
    return found[0]


def _composite_ok(tree):
    c = _cls(tree, "Composite")
    for n in c.body:
        if isinstance(n, ast.FunctionDef) and n.name in ("__getattr__", "__getattribute__", "__setattr__", "__delattr__"):
            raise Untranslatable(f"Composite defines {n.name}")
    fn = _method2(c, "is_trinary", ["property", "abstractmethod"])
    if any(not (isinstance(s, ast.Expr) and isinstance(s.value, ast.Constant)) and not isinstance(s, ast.Pass) for s in fn.body):
        raise Untranslatable("Composite.is_trinary is not abstract")
    _method2(c, "_is_modality_leaf", ["property"])
    return c


def _leaf_branch(fn):
    """the statements of the method with `if self._is_modality_leaf: A [else: B]` replaced by A"""
    out, seen = [], 0
    for s in _strip_doc(fn.body):
        if isinstance(s, ast.If) and _attr_chain(s.test) == ["self", "_is_modality_leaf"]:
            seen += 1
            out.extend(s.body)
            if s.body and isinstance(s.body[-1], ast.Return):
                break                         # what follows is the branch for composites with children
        else:
            out.append(s)
    if seen != 1:
        raise Untranslatable(f"{fn.name}: expected exactly one `if self._is_modality_leaf:`")
    return out


LEAF = "(self_ : list (string * mobj))"


def _leaf_method(comp, name: str) -> str:
    fn = _method2(comp, name, [])
    if name == "get_all_modalities":
        _params(fn, ["self"])
        t = T({}, DICT, ctx="leaf")
        return f"Definition gen_leaf_get_all_modalities {LEAF} : list (string * mobj) * dres (list (string * mobj)) :=\n  {t.block(_leaf_branch(fn), None)}.\n"
    if name == "get_modality":
        _params(fn, ["self", "name"])
        t = T({"name": STR}, MOBJ, ctx="leaf")
        return f"Definition gen_leaf_get_modality {LEAF} (name_ : string) : list (string * mobj) * dres mobj :=\n  {t.block(_strip_doc(fn.body), None)}.\n"
    if name == "set_modality":
        _params(fn, ["self", "name", "spec", "sens", "kind"], ["clinical"])
        t = T({"name": STR, "spec": VAL, "sens": VAL, "kind": STR}, UNIT, ctx="leaf")
        return (f"Definition gen_leaf_set_modality (tri : bool) {LEAF} (name_ : string) (spec_ sens_ : val) (kind_ : string)\n"
                f"  : list (string * mobj) * dres unit :=\n  {t.block(_leaf_branch(fn), t.ok('tt'))}.\n")
    if name == "del_modality":
        _params(fn, ["self", "name"])
        t = T({"name": STR}, UNIT, ctx="leaf")
        return (f"Definition gen_leaf_del_modality {LEAF} (name_ : string) : list (string * mobj) * dres unit :=\n  "
                f"{t.block(_leaf_branch(fn), t.ok('tt'))}.\n")
    if name == "clear_modalities":
        _params(fn, ["self"])
        t = T({}, UNIT, ctx="leaf")
        return f"Definition gen_leaf_clear_modalities {LEAF} : list (string * mobj) * dres unit :=\n  {t.block(_leaf_branch(fn), t.ok('tt'))}.\n"
    if name == "replace_all_modalities":
        _params(fn, ["self", "modalities"])
        t = T({"modalities": DICT}, UNIT, st="(self_, modalities_)", ctx="leaf")
        return (f"Definition gen_leaf_replace_all_modalities (tri : bool) {LEAF} (modalities_ : list (string * mobj))\n"
                f"  : (list (string * mobj) * list (string * mobj)) * dres unit :=\n  {t.block(_leaf_branch(fn), t.ok('tt'))}.\n")
    if name == "modalities_hash":
        _params(fn, ["self"])
        t = T({}, HASH, ctx="leaf")
        return ("Definition gen_leaf_modalities_hash {H : Type} (hash0 : H) (hash_bytes : list Qc -> H) (hash_tuple : H * string * H -> H)\n"
                f"  {LEAF} : list (string * mobj) * dres H :=\n  {t.block(_leaf_branch(fn), None)}.\n")
    raise Untranslatable(name)


def translate_is_leaf() -> str:
    """if len(self._modality_children) > 0: return False ; if not hasattr(self, "_modalities"): raise AttributeError(...) ; return True"""
    fn = _method2(_composite_ok(_tree()), "_is_modality_leaf", ["property"])
    _params(fn, ["self"])
    st = _strip_doc(fn.body)
    want = ["if len(self._modality_children) > 0:\n    return False", None, "return True"]
    if len(st) != 3 or ast.unparse(st[0]) != want[0] or ast.unparse(st[2]) != want[2]:
        raise Untranslatable("_is_modality_leaf: shape")
    s = st[1]
    ok = (isinstance(s, ast.If) and not s.orelse and ast.unparse(s.test) == "not hasattr(self, '_modalities')" and len(s.body) == 1
          and isinstance(s.body[0], ast.Raise) and isinstance(s.body[0].exc, ast.Call) and isinstance(s.body[0].exc.func, ast.Name)
          and s.body[0].exc.func.id == "AttributeError" and s.body[0].cause is None)
    if not ok:
        raise Untranslatable("_is_modality_leaf: second statement is not `if not hasattr(self, '_modalities'): raise AttributeError(...)`")
    return ("Definition gen_is_modality_leaf {C M : Type} (children_ : list C) (modalities_ : option M) : dres bool :=\n"
            "  if Nat.ltb 0 (length children_) then inr false\n"
            "  else if negb (py_hasattr modalities_) then inl DAttr\n"
            "  else inr true.\n"
            "Lemma gen_is_modality_leaf_np : forall C M (cs : list C) (ms : option M), gen_is_modality_leaf cs ms = np_is_modality_leaf cs ms.\n"
            "Proof. intros. reflexivity. Qed.\n"
            "Lemma gen_is_modality_leaf_eq : forall C M (cs : list C) (ms : option M),\n"
            "  gen_is_modality_leaf cs ms = inr true <-> cs = [] /\\ ms <> None.\n"
            "Proof. intros. rewrite gen_is_modality_leaf_np. apply np_is_modality_leaf_eq. Qed.\n")


def _leaf(*names) -> str:
    tree = _tree()
    comp = _composite_ok(tree)
    mod = _modality_cls(tree) if any(n.startswith("mod:") for n in names) else None
    out = []
    for n in names:
        out.append(_modality_method(mod, n[4:]) if n.startswith("mod:") else _leaf_method(comp, n))
    return "".join(out)


def translate_leaf_get_all() -> str:
    return (_leaf("get_all_modalities")
            + "Lemma gen_leaf_get_all_modalities_eq : forall objs, gen_leaf_get_all_modalities objs = (objs, inr objs).\n"
              "Proof. intros. reflexivity. Qed.\n")


def translate_leaf_get() -> str:
    return (_leaf("mod:spec_set", "mod:sens_set", "get_all_modalities", "get_modality")
            + "Lemma gen_leaf_get_modality_np : forall objs n, gen_leaf_get_modality objs n = np_leaf_get_modality objs n.\nProof. intros. reflexivity. Qed.\n"
              "Lemma gen_leaf_get_modality_eq : forall tri ims n,\n"
              "  gen_leaf_get_modality (objs_of tri ims) n\n"
              "  = (objs_of tri ims, match lookup String.eqb n ims with None => inl DKey | Some mc => inr (obj_of tri (fst mc) (snd mc)) end)\n"
              "  /\\ option_map fst (lookup String.eqb n ims) = dict_get n (strip ims).\n"
              "Proof. intros. rewrite gen_leaf_get_modality_np. split; [apply np_leaf_get_modality_eq | apply lookup_strip]. Qed.\n"
              "(* user code `leaf.get_modality(n).spec = q` / `.sens = q`: the setter runs on the object stored in the dict (Machine's UpdMod) *)\n"
              "Lemma gen_leaf_upd_modality_machine : forall tri x mc n (is_spec : bool) q,\n"
              "  let set := if is_spec then gen_spec_set else gen_sens_set in\n"
              "  match gen_leaf_get_modality (objs_of tri (i_mods uni_sig x)) n with\n"
              "  | (objs, inl e) => fst (fst (istep uni_sig KFull (UpdMod uni_sig n (is_spec, q)) x mc)) = OErr ENoKey /\\ e = DKey\n"
              "  | (objs, inr o) =>\n"
              "      match set o (V q) with\n"
              "      | (o', inl e) => fst (fst (istep uni_sig KFull (UpdMod uni_sig n (is_spec, q)) x mc)) = OErr ERejected /\\ e = DValue /\\ o' = o\n"
              "      | (o', inr _) => fst (fst (istep uni_sig KFull (UpdMod uni_sig n (is_spec, q)) x mc)) = ONone\n"
              "                       /\\ dict_set n o' objs = objs_of tri (i_mods uni_sig (snd (fst (istep uni_sig KFull (UpdMod uni_sig n (is_spec, q)) x mc))))\n"
              "      end\n"
              "  end.\n"
              "Proof. intros tri x mc n is_spec q. exact (np_leaf_upd_modality_machine tri x mc n is_spec q). Qed.\n")


SET_DEFS = ("mod:spec_set", "mod:sens_set", "mod:init", "set_modality")


def translate_leaf_set() -> str:
    return (_leaf(*SET_DEFS)
            + "Lemma gen_leaf_set_modality_np : forall tri objs n sp sn k, gen_leaf_set_modality tri objs n sp sn k = np_leaf_set_modality tri objs n sp sn k.\n"
              "Proof. intros. reflexivity. Qed.\n"
              "Lemma gen_leaf_set_modality_eq : forall tri ims n sp sn k,\n"
              "  gen_leaf_set_modality tri (objs_of tri ims) n sp sn k\n"
              "  = match mk_modality sp sn (str_eqb k \"pathological\") with\n"
              "    | None => (objs_of tri ims, inl DValue)\n"
              "    | Some m => (objs_of tri (aset String.eqb n (m, None) ims), inr tt)\n"
              "    end.\n"
              "Proof. intros. rewrite gen_leaf_set_modality_np. apply np_leaf_set_modality_eq. Qed.\n"
              "Lemma gen_leaf_set_modality_sync : forall tri u ims n sp sn k, strip ims = u_mods u ->\n"
              "  exists ims', gen_leaf_set_modality tri (objs_of tri ims) n sp sn k\n"
              "               = (objs_of tri ims', if snd (leaf_cfg (CSetModality n sp sn (str_eqb k \"pathological\")) u) then inr tt else inl DValue)\n"
              "            /\\ strip ims' = u_mods (fst (leaf_cfg (CSetModality n sp sn (str_eqb k \"pathological\")) u)).\n"
              "Proof. intros. rewrite gen_leaf_set_modality_np. apply np_leaf_set_modality_sync; assumption. Qed.\n"
              "Lemma gen_leaf_set_modality_machine : forall tri x mc n sp sn k m, mk_modality sp sn (str_eqb k \"pathological\") = Some m ->\n"
              "  gen_leaf_set_modality tri (objs_of tri (i_mods uni_sig x)) n sp sn k\n"
              "  = (objs_of tri (i_mods uni_sig (snd (fst (istep uni_sig KFull (SetMod uni_sig n m) x mc)))), inr tt)\n"
              "  /\\ strip (aset String.eqb n (m, None) (i_mods uni_sig x)) = leaf_op (OpSet n m) (strip (i_mods uni_sig x)).\n"
              "Proof. intros. rewrite gen_leaf_set_modality_np. apply np_leaf_set_modality_machine; assumption. Qed.\n")


def translate_leaf_del() -> str:
    return (_leaf("del_modality")
            + "Lemma gen_leaf_del_modality_np : forall objs n, gen_leaf_del_modality objs n = np_leaf_del_modality objs n.\nProof. intros. reflexivity. Qed.\n"
              "Lemma gen_leaf_del_modality_eq : forall tri ims n,\n"
              "  gen_leaf_del_modality (objs_of tri ims) n\n"
              "  = match adel String.eqb n ims with None => (objs_of tri ims, inl DKey) | Some ims' => (objs_of tri ims', inr tt) end.\n"
              "Proof. intros. rewrite gen_leaf_del_modality_np. apply np_leaf_del_modality_eq. Qed.\n"
              "Lemma gen_leaf_del_modality_sync : forall tri u ims n, strip ims = u_mods u ->\n"
              "  exists ims', gen_leaf_del_modality (objs_of tri ims) n\n"
              "               = (objs_of tri ims', if snd (leaf_cfg (CDelModality n) u) then inr tt else inl DKey)\n"
              "            /\\ strip ims' = u_mods (fst (leaf_cfg (CDelModality n) u))\n"
              "            /\\ (snd (leaf_cfg (CDelModality n) u) = true -> strip ims' = leaf_op (OpDel n) (strip ims)).\n"
              "Proof. intros. rewrite gen_leaf_del_modality_np. apply np_leaf_del_modality_sync; assumption. Qed.\n")


def translate_leaf_clear() -> str:
    return (_leaf("clear_modalities")
            + "Lemma gen_leaf_clear_modalities_eq : forall objs u, gen_leaf_clear_modalities objs = (objs_of false [], inr tt)\n"
              "  /\\ strip (@nil (string * (modality * option mat))) = u_mods (fst (leaf_cfg CClearModalities u)) /\\ snd (leaf_cfg CClearModalities u) = true.\n"
              "Proof. intros. repeat split; reflexivity. Qed.\n")


def translate_leaf_replace() -> str:
    return (_leaf("mod:spec_get", "mod:sens_get", *SET_DEFS, "clear_modalities", "replace_all_modalities")
            + "Lemma gen_leaf_replace_all_modalities_np : forall tri objs arg,\n"
              "  gen_leaf_replace_all_modalities tri objs arg = np_leaf_replace_all_modalities tri objs arg.\nProof. intros. reflexivity. Qed.\n"
              "Lemma gen_leaf_replace_all_modalities_eq : forall tri tri' u ims aims, strip ims = u_mods u ->\n"
              "  exists ims', gen_leaf_replace_all_modalities tri (objs_of tri ims) (objs_of tri' aims)\n"
              "               = ((objs_of tri ims', objs_of tri' aims), if snd (leaf_cfg (CReplaceModalities (mod_args aims)) u) then inr tt else inl DValue)\n"
              "            /\\ strip ims' = u_mods (fst (leaf_cfg (CReplaceModalities (mod_args aims)) u)).\n"
              "Proof. intros. rewrite gen_leaf_replace_all_modalities_np. apply np_leaf_replace_all_modalities_sync; assumption. Qed.\n"
              "Lemma gen_leaf_replace_all_modalities_machine : forall tri tri' x mc aims, forallb (fun e => mod_ok (fst (snd e))) aims = true ->\n"
              "  gen_leaf_replace_all_modalities tri (objs_of tri (i_mods uni_sig x)) (objs_of tri' aims)\n"
              "  = ((objs_of tri (i_mods uni_sig (snd (fst (istep uni_sig KFull (ReplaceMods uni_sig (strip aims)) x mc)))), objs_of tri' aims), inr tt)\n"
              "  /\\ replace_assoc String.eqb (strip aims) = leaf_op (OpReplace (strip aims)) (strip (i_mods uni_sig x)).\n"
              "Proof. intros. rewrite gen_leaf_replace_all_modalities_np. apply np_leaf_replace_all_modalities_machine; assumption. Qed.\n")


# ----------------------------------------------------------------------------------------------------------------------
# Composite: the branch for composites with children (forwarding loops)
# ----------------------------------------------------------------------------------------------------------------------
def _else_branch(fn):
    """the statements of the method with `if self._is_modality_leaf: A else: B` replaced by B"""
    out, seen = [], 0
    for s in _strip_doc(fn.body):
        if isinstance(s, ast.If) and _attr_chain(s.test) == ["self", "_is_modality_leaf"]:
            seen += 1
            if not s.orelse:
                raise Untranslatable(f"{fn.name}: `if self._is_modality_leaf:` without `else:`")
            out.extend(s.orelse)
        else:
            out.append(s)
    if seen != 1:
        raise Untranslatable(f"{fn.name}: expected exactly one `if self._is_modality_leaf:`")
    return out


KIDS = "(self_ : list (string * C))"
SIGS = {"set_modality": "(set_modality_ : C -> string -> val -> val -> string -> C * dres unit)",
        "del_modality": "(del_modality_ : C -> string -> C * dres unit)",
        "replace_all_modalities": "(replace_all_modalities_ : C -> D -> C * dres unit)",
        "clear_modalities": "(clear_modalities_ : C -> C * dres unit)"}
# name -> (python parameters, defaults, env, Gallina binders of the parameters, the child's method applied to a child `c`)
FORWARD = {"set_modality": (["self", "name", "spec", "sens", "kind"], ["clinical"], {"name": STR, "spec": VAL, "sens": VAL, "kind": STR},
                            "(name_ : string) (spec_ sens_ : val) (kind_ : string)", "name_ spec_ sens_ kind_"),
           "del_modality": (["self", "name"], [], {"name": STR}, "(name_ : string)", "name_"),
           "replace_all_modalities": (["self", "modalities"], [], {"modalities": DARG}, "(modalities_ : D)", "modalities_"),
           "clear_modalities": (["self"], [], {}, "", "")}


def _forward_piece(name: str):
    def translate() -> str:
        comp = _composite_ok(_tree())
        fn = _method2(comp, name, [])
        params, defaults, env, binders, actual = FORWARD[name]
        _params(fn, params, defaults)
        t = T(env, UNIT, ctx="branch")
        body = t.block(_else_branch(fn), t.ok("tt"))
        if t.used_methods != [name]:
            raise Untranslatable(f"{name}: the branch calls {t.used_methods} on the children")
        ty = "{C D : Type}" if name == "replace_all_modalities" else "{C : Type}"
        gen = f"gen_branch_{name}"
        args = " ".join(x for x in (f"{name}_", "self_", actual) if x)
        meth = f"(fun c => {name}_ c{' ' + actual if actual else ''})"
        allb = " ".join(x for x in (ty, SIGS[name], KIDS, binders) if x)
        return (f"Definition {gen} {allb}\n  : list (string * C) * dres unit :=\n  {body}.\n"
                f"Section Forward.\n  Context {ty} {SIGS[name]} {binders}.\n"
                f"  Lemma {gen}_np : forall self_, {gen} {args} = np_branch_forward {meth} self_.\n  Proof. intros. reflexivity. Qed.\n"
                f"  Lemma {gen}_eq : forall self_, {gen} {args} = forward {meth} self_.\n"
                f"  Proof. intros. rewrite {gen}_np. apply np_branch_forward_eq. Qed.\nEnd Forward.\n"
                + _forward_models(name, binders, actual))
    return translate


def _forward_models(name: str, binders: str, actual: str) -> str:
    """the three composite classes of Sync.v: Bilateral / HPVUnilateral forward to two Unilateral models, Midline to Bilateral ones"""
    gen = f"gen_branch_{name}"
    d = " {D : Type}" if name == "replace_all_modalities" else ""
    sig_u = SIGS[name].replace("C ->", "uni ->").replace("-> C *", "-> uni *")
    sig_b = SIGS[name].replace("C ->", "bilateral ->").replace("-> C *", "-> bilateral *")
    meth = f"(fun c => {name}_ c{' ' + actual if actual else ''})"
    call = " ".join(x for x in (f"{name}_", "KIDS", actual) if x)
    out = []
    for cls, kids, cfg, sig, arg, ty in (("bilateral", "b_kids", "b_cfg", sig_u, "b", "bilateral"), ("hpv", "h_kids", "h_cfg", sig_u, "h", "hpvmodel")):
        c = call.replace("KIDS", f"({kids} {arg})")
        out.append(f"Lemma {gen}_{cls} : forall{d} {sig_u} {binders} (f : uni -> uni * bool) ({arg} : {ty}), sim {meth} f ->\n"
                   f"  fst ({gen} {c}) = {kids} (fst ({cfg} f {arg})) /\\ ok_of (snd ({gen} {c})) = snd ({cfg} f {arg}).\n"
                   f"Proof. intros. rewrite {gen}_eq. apply forward_{cfg}. assumption. Qed.\n")
    c = call.replace("KIDS", "(m_kids m)")
    out.append(f"Lemma {gen}_midline : forall{d} {sig_b} {binders} (f : uni -> uni * bool) (m : midline), sim {meth} (b_cfg f) ->\n"
               f"  fst ({gen} {c}) = m_kids (fst (m_cfg f m)) /\\ ok_of (snd ({gen} {c})) = snd (m_cfg f m).\n"
               f"Proof. intros. rewrite {gen}_eq. apply forward_m_cfg. assumption. Qed.\n")
    return "".join(out)


def translate_branch_hash() -> str:
    comp = _composite_ok(_tree())
    fn = _method2(comp, "modalities_hash", [])
    _params(fn, ["self"])
    t = T({}, HASH, ctx="branch")
    body = t.block(_else_branch(fn), None)
    if t.used_methods != ["modalities_hash"]:
        raise Untranslatable(f"modalities_hash: the branch calls {t.used_methods} on the children")
    return ("Definition gen_branch_modalities_hash {C H : Type} (hash0 : H) (hash_pair : H * H -> H) (modalities_hash_ : C -> C * dres H)\n"
            f"  {KIDS} : list (string * C) * dres H :=\n  {body}.\n"
            "Lemma gen_branch_modalities_hash_np : forall C H (h0 : H) hp (mh : C -> C * dres H) self,\n"
            "  gen_branch_modalities_hash h0 hp mh self = np_branch_modalities_hash h0 hp mh self.\nProof. intros. reflexivity. Qed.\n"
            "Lemma gen_branch_modalities_hash_eq : forall C H A (h0 : H) hb ht hp (kf : A -> mat) (mh : C -> C * dres H) (fill : C -> C)\n"
            "    (trees : list (string * ctree A)) (self : list (string * C)),\n"
            "  Forall2 (fun t c => mh (snd c) = (fill (snd c), inr (hash_of_key h0 hb ht hp (coll_key kf (snd t))))) trees self ->\n"
            "  gen_branch_modalities_hash h0 hp mh self\n"
            "  = (map (fun c => (fst c, fill (snd c))) self, inr (hash_of_key h0 hb ht hp (coll_key kf (CBranch trees)))).\n"
            "Proof. intros. rewrite gen_branch_modalities_hash_np. apply np_branch_modalities_hash_eq. assumption. Qed.\n")


def translate_leaf_hash() -> str:
    return (_leaf(*("mod:" + n for n in CM), "mod:hash", "modalities_hash")
            + "Lemma gen_leaf_modalities_hash_np : forall H (h0 : H) hb ht objs,\n"
              "  gen_leaf_modalities_hash h0 hb ht objs = np_leaf_modalities_hash h0 hb ht objs.\nProof. intros. reflexivity. Qed.\n"
              "Lemma gen_leaf_modalities_hash_eq : forall H (h0 : H) hb ht hp tri ims, mods_ok tri ims ->\n"
              "  gen_leaf_modalities_hash h0 hb ht (objs_of tri ims)\n"
              "  = (objs_of tri (filled tri ims), inr (hash_of_key h0 hb ht hp (coll_key (mod_key (base_of tri)) (CLeaf (strip ims)))))\n"
              "  /\\ strip (filled tri ims) = strip ims.\n"
              "Proof. intros. rewrite gen_leaf_modalities_hash_np. split; [apply np_leaf_modalities_hash_eq; assumption | apply strip_filled]. Qed.\n"
              "Lemma gen_leaf_modalities_hash_free : forall tri1 tri2 (ims1 ims2 : list (string * (modality * option mat))),\n"
              "  hash_of_key HZero HBytes HTuple HPair (coll_key (mod_key (base_of tri1)) (CLeaf (strip ims1)))\n"
              "  = hash_of_key HZero HBytes HTuple HPair (coll_key (mod_key (base_of tri2)) (CLeaf (strip ims2)))\n"
              "  <-> coll_key (mod_key (base_of tri1)) (CLeaf (strip ims1)) = coll_key (mod_key (base_of tri2)) (CLeaf (strip ims2)).\n"
              "Proof. intros. apply hash_of_key_free. Qed.\n")


HEADER = ("(* GENERATED on every run by harness/translate14.py from the Python source of lymph; do not edit *)\n"
          "From LymphModel Require Import Base States Linalg Graph Transition Observation Dist Unilateral Models DistModel Params NumpyParams NumpyDist Sync Machine Hash NumpyModalities.\n"
          "Local Open Scope nat_scope.\nLocal Open Scope string_scope.\nLocal Open Scope list_scope.\n\n")

SRC = "lymph/modalities.py "
PIECES = {
    "mod_init": (translate_init, "gen_init_eq", SRC + "Modality.__init__ (spec / sens setters)"),
    "mod_spec_sens": (translate_spec_sens, "gen_spec_sens_eq", SRC + "Modality.spec / Modality.sens (getters and setters)"),
    "mod_check_confusion_matrix": (translate_check, "gen_check_confusion_matrix_eq", SRC + "Modality.check_confusion_matrix"),
    "mod_confusion_matrix_set": (translate_cm_set, "gen_confusion_matrix_set_eq", SRC + "Modality.confusion_matrix setter (check_confusion_matrix)"),
    "mod_confusion_matrix": (translate_cm, ["gen_confusion_matrix_eq", "gen_confusion_matrix_machine"],
                             SRC + "Modality.confusion_matrix property (setter, check_confusion_matrix)"),
    "mod_hash": (translate_hash, ["gen_hash_eq", "gen_hash_key_inj"], SRC + "Modality.__hash__ (confusion_matrix)"),
    "mod_eq": (translate_eq, "gen_eq_eq", SRC + "Modality.__eq__ (confusion_matrix)"),
    "mod_is_leaf": (translate_is_leaf, "gen_is_modality_leaf_eq", SRC + "Composite._is_modality_leaf"),
    "leaf_get_all_modalities": (translate_leaf_get_all, "gen_leaf_get_all_modalities_eq", SRC + "Composite.get_all_modalities (leaf branch)"),
    "leaf_get_modality": (translate_leaf_get, ["gen_leaf_get_modality_eq", "gen_leaf_upd_modality_machine"],
                          SRC + "Composite.get_modality (leaf branch; with the spec / sens setters on the returned object)"),
    "leaf_set_modality": (translate_leaf_set, ["gen_leaf_set_modality_eq", "gen_leaf_set_modality_sync", "gen_leaf_set_modality_machine"],
                          SRC + "Composite.set_modality (leaf branch, Modality.__init__)"),
    "leaf_del_modality": (translate_leaf_del, ["gen_leaf_del_modality_eq", "gen_leaf_del_modality_sync"], SRC + "Composite.del_modality (leaf branch)"),
    "leaf_replace_all_modalities": (translate_leaf_replace, ["gen_leaf_replace_all_modalities_eq", "gen_leaf_replace_all_modalities_machine"],
                                    SRC + "Composite.replace_all_modalities (leaf branch; clear_modalities, set_modality)"),
    "leaf_clear_modalities": (translate_leaf_clear, "gen_leaf_clear_modalities_eq", SRC + "Composite.clear_modalities (leaf branch)"),
    "branch_set_modality": (_forward_piece("set_modality"), ["gen_branch_set_modality_eq", "gen_branch_set_modality_bilateral", "gen_branch_set_modality_hpv",
                                                             "gen_branch_set_modality_midline"], SRC + "Composite.set_modality (branch: forwarding to the children)"),
    "branch_del_modality": (_forward_piece("del_modality"), ["gen_branch_del_modality_eq", "gen_branch_del_modality_bilateral", "gen_branch_del_modality_hpv",
                                                             "gen_branch_del_modality_midline"], SRC + "Composite.del_modality (branch: forwarding to the children)"),
    "branch_replace_all_modalities": (_forward_piece("replace_all_modalities"),
                                      ["gen_branch_replace_all_modalities_eq", "gen_branch_replace_all_modalities_bilateral",
                                       "gen_branch_replace_all_modalities_hpv", "gen_branch_replace_all_modalities_midline"],
                                      SRC + "Composite.replace_all_modalities (branch: forwarding to the children)"),
    "branch_clear_modalities": (_forward_piece("clear_modalities"), ["gen_branch_clear_modalities_eq", "gen_branch_clear_modalities_bilateral",
                                                                     "gen_branch_clear_modalities_hpv", "gen_branch_clear_modalities_midline"],
                                SRC + "Composite.clear_modalities (branch: forwarding to the children)"),
    "branch_modalities_hash": (translate_branch_hash, "gen_branch_modalities_hash_eq", SRC + "Composite.modalities_hash (branch: fold over the children)"),
    "leaf_modalities_hash": (translate_leaf_hash, ["gen_leaf_modalities_hash_eq", "gen_leaf_modalities_hash_free"],
                             SRC + "Composite.modalities_hash (leaf branch, Modality.__hash__)"),
}


def generate(piece: str) -> str:
    fn, lemma, _ = PIECES[piece]
    text = fn()
    lemmas = [lemma] if isinstance(lemma, str) else list(lemma)
    return HEADER + text + "".join(f"Print Assumptions {x}.\n" for x in lemmas)


if __name__ == "__main__":
    import sys
    for p in (sys.argv[1:] or PIECES):
        print(generate(p))
