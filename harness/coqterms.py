"""Gallina literals for case descriptions."""
from __future__ import annotations

from .core import q, s, lst, tup, nat, boolean, opt
from . import gen


def coq_gdict(gspec: dict, sets=()) -> str:
    items = []
    for k, n, cs in gspec["entries"]:
        ctor = "CSet" if n in sets else "CList"
        items.append(tup(tup(s(k), s(n)), f"({ctor} {lst(s(c) for c in cs)})"))
    return lst(items)


def coq_edge_params(gspec: dict, params: dict[str, float]) -> str:
    """[(edge name, (spread, micro))] from flat parameter names"""
    per = {}
    for name, v in params.items():
        en, _, kind = name.rpartition("_")
        d = per.setdefault(en, {})
        d[kind] = v
    items = []
    for en, d in per.items():
        spread = d.get("spread", d.get("growth", 0.0))
        micro = d.get("micro", 1.0)
        items.append(tup(s(en), tup(q(spread), q(micro))))
    return lst(items)


def coq_graph(gspec: dict, params: dict[str, float] | None = None) -> str:
    g = f"(force_graph (build_graph {nat(gspec['base'])} {coq_gdict(gspec)}))"
    if params:
        g = f"(set_edges {g} {coq_edge_params(gspec, params)})"
    return g


def coq_modality(m) -> str:
    name, spec, sens, kind = m
    return f"{{| m_spec := {q(spec)}; m_sens := {q(sens)}; m_path := {boolean(kind == 'pathological')} |}}"


def coq_mods(mods) -> str:
    return lst(tup(s(m[0]), coq_modality(m)) for m in mods)


def coq_indicator(v) -> str:
    table = {True: "IInvolved", False: "IHealthy", "healthy": "IHealthy", "involved": "IInvolved",
             "micro": "IMicro", "macro": "IMacro", "notmacro": "INotMacro"}
    if v is None:
        return "None"
    return f"(Some {table[v]})"


def coq_pattern(p: dict) -> str:
    return lst(tup(s(k), coq_indicator(v)) for k, v in p.items())


def coq_diagnosis(d: dict) -> str:
    return lst(tup(s(m), coq_pattern(p)) for m, p in d.items())


def coq_dist(d: dict) -> str:
    if "frozen" in d:
        return f"(Frozen {lst(q(w) for w in d['frozen'])})"
    return f"(Param {nat(d['fam'])} {lst(tup(s(k), q(v)) for k, v in d['kw'].items())})"


def coq_dists(ds: dict) -> str:
    return lst(tup(s(t), coq_dist(d)) for t, d in ds.items())


def coq_uni(case: dict) -> str:
    """uni record from a case with graph, params, mods, dists, max_time.
    Frozen distributions are normalised like Distribution.__init__ does."""
    ds = []
    for t, d in case.get("dists", {}).items():
        if "frozen" in d:
            ds.append(tup(s(t), f"(Frozen (normalize {lst(q(w) for w in d['frozen'])}))"))
        else:
            ds.append(tup(s(t), coq_dist(d)))
    return ("{| u_graph := " + coq_graph(case["graph"], case.get("params")) + "; u_mods := " + coq_mods(case.get("mods", []))
            + "; u_dists := " + lst(ds) + "; u_maxt := " + nat(case.get("max_time", 10)) + " |}")


def coq_patient(p: dict, side: str, tmap) -> str:
    """patient record for one side; tmap maps the raw T-stage to the model's T-stage name"""
    diag = {}
    for m, sides in p["find"].items():
        if side in sides:
            diag[m] = sides[side]
    return "{| p_tstage := " + s(str(tmap(p["t"]))) + "; p_find := " + coq_diagnosis(diag) + " |}"


def coq_bpatient(p: dict, tmap) -> str:
    di = {m: sd["ipsi"] for m, sd in p["find"].items() if "ipsi" in sd}
    dc = {m: sd["contra"] for m, sd in p["find"].items() if "contra" in sd}
    return ("{| bp_t := " + s(str(tmap(p["t"]))) + "; bp_ipsi := " + coq_diagnosis(di) + "; bp_contra := "
            + coq_diagnosis(dc) + " |}")


def coq_bilateral(case: dict, bi_model, symT=False, symL=True) -> str:
    from . import impl
    ui = coq_uni(impl.leaf_case(case, bi_model.ipsi))
    uc = coq_uni(impl.leaf_case(case, bi_model.contra))
    return f"{{| b_ipsi := {ui}; b_contra := {uc}; b_symT := {boolean(symT)}; b_symL := {boolean(symL)} |}}"


def coq_midline(case: dict, ml_model) -> str:
    fl = case.get("flags", {})
    symL = fl.get("lnl_sym", True)
    ext = coq_bilateral(case, ml_model.ext, False, symL)
    noext = coq_bilateral(case, ml_model.noext, False, symL)
    central = f"(Some {coq_bilateral(case, ml_model.central, True, symL)})" if ml_model.use_central else "None"
    unknown = f"(Some {coq_bilateral(case, ml_model.unknown, False, symL)})" if ml_model.marginalize_unknown else "None"
    mixing = f"(Some {q(ml_model.mixing_param)})" if ml_model.use_mixing else "None"
    return (f"{{| ml_ext := {ext}; ml_noext := {noext}; ml_central := {central}; ml_unknown := {unknown}; "
            f"ml_mixing := {mixing}; ml_midext := {q(ml_model.midext_prob)}; ml_evo := {boolean(ml_model.use_midext_evo)}; "
            f"ml_symL := {boolean(symL)} |}}")
