"""Source-to-Gallina translator, tenth part: the construction of `lymph.graph.Representation` and its small accessors.

On every run the CURRENT Python source is parsed with `ast`, translated statement by statement into Gallina
(`gen_<function>`), and a generated file PROVES the result equal to the hand-written model of `coq/theories/Graph.v`
for ALL arguments.  As in translate5 the proof has two steps: the generated term is checked by CONVERSION
(`reflexivity`) against `NumpyGraph.np_<function>`, a hand-written statement-by-statement reading of the same Python
function, and `NumpyGraph.v` proves `np_<function> = <model>` once and for all.

  utils.check_unique_names             -> gen_check_unique_names = Graph.check_unique_names        (no hypothesis)
  graph.Representation._init_nodes     -> gen_init_nodes         = the nodes part of Graph.build_graph (init_nodes, then the
      (with the properties tumors, lnls)                             "no tumor" / "no LNL" checks)        (no hypothesis)
  graph.Representation._init_edges     -> gen_init_edges         = Graph.init_edges ... []   for a dict that passed
      (with Edge.get_name)                                           check_conns and nodes stored under their own name
  graph.Representation.__init__        -> gen_Representation     = Graph.build_graph                 (no hypothesis)
      (with all of the above)
  graph.Representation.to_dict         -> gen_to_dict            = Graph.to_dict  for pairwise distinct (type, name) keys
                                                                     (in particular for every graph build_graph returns)
  graph.Representation._gen_state_list -> gen_gen_state_list     = Graph.state_list (= States.all_states base #lnls)
  graph.Representation.state_list      -> gen_state_list         (cache unset or holding the model's list: the model's list)
  graph.Representation.tumor_edges / lnl_edges / growth_edges
                                       -> gen_tumor_edges ...    = the dict name -> edge of Graph.tumor_edges / ...
  graph.Edge.get_name                  -> gen_get_name e "to"    = e_name e  for every edge Edge(...) constructs and every
                                                                     edge of a graph build_graph returns
  graph.Representation.get_state       -> gen_get_state          = the states of the LNLs in the order of Graph.lnls (list
                                                                     or dict), for pairwise distinct LNL names
  graph.Representation.set_state       -> gen_set_state          (Graph.v keeps no node states; the specification is in
      (with the setter of AbstractNode.state)                        NumpyGraph.v) set_state( *x) with one allowed state per
                                                                     LNL succeeds, puts LNL i in state States.digit i x,
                                                                     get_state() then returns x and no other node changes;
                                                                     a state >= base raises ValueError; the keyword form sets
                                                                     one LNL by name, skips tumours, KeyError for unknown names

Fail-closed: every statement / expression form that is not listed in class `Py` raises `Untranslatable`; the supporting
definitions the reading relies on (properties and setters listed under ASSUMES) are compared with their expected text.

Python local `x` becomes the Gallina binder `x_`; re-assignment is shadowing; the Python name `_` is the Gallina `_`.

What the translator itself ASSUMES (trusted reading; the conventions are those of the header of NumpyGraph.v)
 * the graph dictionary is a `gdict` (insertion-ordered list of ((type, name), connections)); `graph.items()` is the list,
   iterating `graph` gives the keys; a connection container is a `conns`: `isinstance(c, set)` is `conns_is_set c`,
   `len(c)` / iterating `c` / `x in c` read `conns_items c`, `set(c)` is `py_set (conns_items c)`.
 * a Python set of strings is a duplicate-free list of which only the length is observed (`set()`, `s.add(x)`).
 * string-keyed dicts are insertion-ordered association lists with unique keys: `{}` is `[]`, `d[k] = v` is `dict_set`,
   `d[k]` is `dict_get` and raises KeyError = `EUnknownNode` when absent, `len(d)` is `length`, `d.values()` is `map snd`,
   `{K: V for K, V in D.items() if C}` is `filter`; the dict `res` of to_dict has pair keys (`kdict_set`).
 * EXCEPTIONS: a function that may raise returns `gerr + R`.  `if TEST: raise CLS(...)` is accepted for six tests only and
   the model's error constructor is named after the TEST, the class CLS must be the one listed:
       isinstance(C, set) -> EConnSet (TypeError) | len(C) != len(set(C)) -> EDupConn (ValueError) | NAME in C -> ESelfConn
       (ValueError) | len(SET) != len(graph) -> EDupName (ValueError) | len(self.tumors) < 1 -> ENoTumor (ValueError) |
       len(self.lnls) < 1 -> ENoLnl (ValueError); the message is not read.
 * a node object is the record `node`: `Tumor(name=N, state=tumor_state)` is `py_Tumor N`,
   `LymphNodeLevel(name=N, allowed_states=allowed_lnl_states)` is `py_LymphNodeLevel N` (exactly these keyword arguments, the
   parameters of _init_nodes); `isinstance(x, Tumor)` is `n_tumor x`, `isinstance(x, LymphNodeLevel)` is `negb (n_tumor x)`,
   `x.name` is `n_name x` (checked: the property returns `self._name`, the setter stores `str(new_name)`).
   SAME ARITY: all LNLs share `allowed_states = range(base)`: `lnl.is_trinary` (checked: `len(self.allowed_states) == 3`) is
   the parameter `tri` (= `Nat.eqb base 3` in __init__) and `lnl.allowed_states` is `seq 0 (g_base self)`.
   In `Representation.__init__` the two `if X is None: X = ...` defaults are skipped (base = len(allowed_states) is a parameter).
 * an edge object is the model record `edge`: `e.parent.name` / `e.child.name` are `e_parent e` / `e_child e`,
   `e.is_growth` is `is_growth e` (checked: `return self.parent == self.child`; on node objects `==` is identity, and two
   node objects of a graph are the same iff they agree in class and name: NumpyGraph.node_eqb), `e.is_tumor_spread` is
   `is_tumor_spread e` (checked: `return isinstance(self.parent, Tumor)`), `e.get_name()` is `gen_get_name e "to"` with
   "to" the default of `middle` read from the signature.  `Edge(parent=P, child=C)` is `py_Edge P C`: TypeError =
   `EArcIntoTumor` when C is not an LNL, else the record with spread 0 and micro_mod 1 whose fields `e_kind` / `e_name` cache
   the class of the parent, `parent == child` and `get_name()`; checked against the source: the signature and body of
   `Edge.__init__` (defaults 0.0 / 1.0), the `parent` setter (never raises for a node, appends the edge to `parent.out`) and
   the `child` setter (`if not isinstance(new_child, LymphNodeLevel): raise TypeError`).
 * methods of a constructed Representation take the model record `graph` as `self_`: `self.nodes` (checked: `return
   self._nodes`) is `nodes_dict self_` and `self.nodes.values()` is `g_nodes self_`, `self.edges` (`return self._edges`) is
   `edges_dict self_` (for a built graph these ARE the dicts, NumpyGraph.edges_dict_built); inside _init_nodes /
   _init_edges `self._nodes` / `self._edges` are local variables and the method returns the new value of the attribute.
   `node.out` is `py_out (g_edges self_) node`: the edges of the graph whose parent is the node, in creation order (exact
   when no two arcs got the same name, so that no constructed edge was dropped from `self._edges`).
 * NODE STATES (get_state / set_state): the mutable `_state` attributes of the node objects of one graph are a heap
   `states_ : node_states` keyed by node name that is threaded through the statements; `x.state` is `py_state states_ x`
   (checked: the getter returns `self._state`; an LNL is created in state 0), `x.state = v` is `gen_node_set_state
   (g_base self_) states_ x v : state_err + node_states`, generated from the setter of AbstractNode.state, which must be
   `P = int(P); if P not in self.allowed_states: raise ValueError(...); self._state = P` (`int` is the identity on the
   naturals passed as states, `self.allowed_states` of an LNL is `seq 0 base`; the setter is only ever applied to LNLs);
   `zip(A, B, strict=False)` is `combine A B`, `*new_states_args` is a list of naturals and `**new_states_kwargs` an
   association list name -> natural, `x is not None` on an object taken from the dict of nodes is `true`, KeyError of
   `self.nodes[key]` is `SEKey` here, `return A if as_dict else B` with branches of different types is a sum.
 * `np.array(list(product( *L)))` with `product` imported from itertools is `py_product L` (last position fastest);
   `self._state_list` is an attribute that may be unset: an `option`, reading it when unset raises AttributeError; the
   property returns (new value of the attribute, returned value).
"""
from __future__ import annotations

import ast
import re

from .translate import Untranslatable, _func, _src, _strip_doc
from .translate2 import _attr_chain

# types of Python values -> Gallina types
STR, NAT, BOOL, UNIT = "string", "nat", "bool", "unit"
CONNS, GDICT, SET, NODE, EDGE = "conns", "gdict", "list string", "node", "edge"
NODES, EDGES = "list (string * node)", "list (string * edge)"
NODELIST, EDGELIST, STRS, NATS, NATSS = "list node", "list edge", "list string ", "list nat", "list (list nat)"
KEY, KDICT = "string * string", "list ((string * string) * list string)"
STATES = "list state"
STATEDICT, HEAP = "list (string * nat)", "node_states"

# `if TEST: raise CLS(...)`: label of the test -> (model error, Python class)
RAISES = {"conn_is_set": ("EConnSet", "TypeError"), "dup_conn": ("EDupConn", "ValueError"),
          "self_conn": ("ESelfConn", "ValueError"), "dup_name": ("EDupName", "ValueError"),
          "no_tumor": ("ENoTumor", "ValueError"), "no_lnl": ("ENoLnl", "ValueError")}


def g(name: str) -> str:
    """Gallina binder of a Python local"""
    return "_" if name == "_" else name + "_"


def _reads(stmts) -> set:
    return {n.id for s in stmts for n in ast.walk(s) if isinstance(n, ast.Name) and isinstance(n.ctx, ast.Load)}


def _free_reads(stmts, bound=frozenset()) -> set:
    """names that may be read before the statements (re)bind them"""
    free, bound = set(), set(bound)
    for s in stmts:
        if isinstance(s, ast.For):
            free |= _reads([s.iter]) - bound
            inner = bound | {n.id for n in ast.walk(s.target) if isinstance(n, ast.Name)}
            free |= _free_reads(s.body, inner) | _free_reads(s.orelse, bound)
        elif isinstance(s, ast.If):
            free |= _reads([s.test]) - bound
            free |= _free_reads(s.body, bound) | _free_reads(s.orelse, bound)
        elif isinstance(s, ast.Assign) and len(s.targets) == 1 and isinstance(s.targets[0], ast.Name):
            free |= _reads([s.value]) - bound
            bound.add(s.targets[0].id)
        else:
            free |= _reads([s]) - bound
    return free


def _call(e, name=None):
    """NAME(...) -> the call node"""
    return isinstance(e, ast.Call) and isinstance(e.func, ast.Name) and (name is None or e.func.id == name)


def _kwargs(call, names):
    """a call with exactly the keyword arguments `names` (no positional ones) -> their values"""
    if call.args or sorted(k.arg or "**" for k in call.keywords) != sorted(names):
        raise Untranslatable(f"arguments of {ast.dump(call.func)[:60]}: expected keywords {names}")
    kw = {k.arg: k.value for k in call.keywords}
    return [kw[n] for n in names]


def _string_lit(s: str) -> str:
    if not re.fullmatch(r"[A-Za-z0-9_ >\-]*", s):
        raise Untranslatable(f"string literal {s!r}")
    return f'"{s}"'


class Py:
    """statements  NAME = E | NAME = {} / [] / set() (type from `empties`) | self._ATTR[: T] = {}  (ATTR in `attrs`)
                   | NAME = self.nodes[K] (KeyError) | NAME = Edge(parent=P, child=C) (TypeError)
                   | D[K] = E | S.add(E) | L.append(E) | X.state = E (heap) | return E | return A if FLAG else B
                   | if TEST: raise CLS(...)  (the six tests of RAISES)
                   | if T: B [elif ...] [else: B] (no return inside; as last statement of a block or followed by more code)
                   | for TARGET in ITER: BODY with exactly one variable defined before the loop and rebound in it
       iterables   graph.items() | graph | C (a connection container) | X.values() (X a dict of nodes)
                   | zip(ARGS, X.values(), strict=False) | KWARGS.items()
       expressions names, string / small int literals, set(C), len(X), isinstance(X, set | Tumor | LymphNodeLevel),
                   X.name, X.is_trinary, X.allowed_states, X.out, X.state, X is not None, list(D.values()), E.parent.name, E.child.name, E.is_growth,
                   E.is_tumor_spread, E.get_name(), self.nodes, self.edges, self.tumors, self.lnls, X.values(),
                   Tumor(name=, state=), LymphNodeLevel(name=, allowed_states=), A if T else B, (A, B), f"{A}{B}{C}",
                   [E for V in ITER if T], == (strings) != < (naturals), in (string in container), not, and"""

    def __init__(self, env: dict, attrs: dict | None = None, empties: dict | None = None, self_graph: bool = False,
                 tri: bool = False, ctor_params: dict | None = None, get_name_default: str | None = None,
                 heap: bool = False, key_error: str = "EUnknownNode"):
        self.env = dict(env)                  # python name -> type
        self.attrs = dict(attrs or {})        # "_nodes" / "nodes" -> python name of the local that holds the attribute
        self.empties = dict(empties or {})    # python name -> type of a variable initialised with an empty literal
        self.self_graph = self_graph          # `self` is the model record `graph` (binder self_)
        self.tri = tri                        # the parameter `tri` is available
        self.ctor_params = dict(ctor_params or {})    # keyword of a node constructor -> the parameter it must be given
        self.get_name_default = get_name_default
        self.heap = heap                      # the `_state` attributes of the nodes are the local `states` (binder states_)
        self.key_error = key_error            # the error constructor of a KeyError
        if heap:
            self.env["states"] = HEAP
        self.raising = False

    # ---- expressions -----------------------------------------------------------------------------------------------
    def var(self, e, *types) -> str:
        t, ty = self.expr(e)
        if types and ty not in types:
            raise Untranslatable(f"{ast.dump(e)[:80]} : {ty}, expected one of {types}")
        return t

    def self_attr(self, e):
        """self.nodes / self._nodes / self.edges / self._edges -> (text, type) | None"""
        ch = _attr_chain(e)
        if ch is None or len(ch) != 2 or ch[0] != "self":
            return None
        a = ch[1]
        if a in self.attrs:
            name = self.attrs[a]
            if name not in self.env:
                raise Untranslatable(f"self.{a} is read before it is assigned")
            return (g(name), self.env[name])
        if self.self_graph and a == "nodes":
            return ("(nodes_dict self_)", NODES)
        if self.self_graph and a == "edges":
            return ("(edges_dict self_)", EDGES)
        return None

    def expr(self, e):
        """-> (text, type) of a pure expression"""
        if isinstance(e, ast.Name) and e.id in self.env:
            return (g(e.id), self.env[e.id])
        if isinstance(e, ast.Constant) and isinstance(e.value, str):
            return (_string_lit(e.value), STR)
        if isinstance(e, ast.Constant) and isinstance(e.value, int) and not isinstance(e.value, bool) and 0 <= e.value < 10:
            return (f"{e.value}", NAT)
        sa = self.self_attr(e)
        if sa is not None:
            return sa
        ch = _attr_chain(e)
        if ch is not None and len(ch) == 2 and ch[0] == "self" and ch[1] in ("tumors", "lnls"):
            nodes = self.self_attr(ast.parse("self.nodes", mode="eval").body)
            if nodes is None:
                raise Untranslatable(f"self.{ch[1]} outside a Representation method")
            return (f"(gen_{ch[1]} {nodes[0]})", NODES)
        if isinstance(e, ast.Attribute):
            # attributes of node / edge objects
            if e.attr == "name" and isinstance(e.value, ast.Attribute) and e.value.attr in ("parent", "child"):
                return (f"(e_{e.value.attr} {self.var(e.value.value, EDGE)})", STR)
            t, ty = self.expr(e.value)
            if ty == NODE and e.attr == "name":
                return (f"(n_name {t})", STR)
            if ty == NODE and e.attr == "is_trinary" and self.tri:
                return ("tri", BOOL)
            if ty == NODE and e.attr == "allowed_states" and self.self_graph:
                return ("(seq 0 (g_base self_))", NATS)
            if ty == NODE and e.attr == "out" and self.self_graph:
                return (f"(py_out (g_edges self_) {t})", EDGELIST)
            if ty == NODE and e.attr == "state" and self.heap:
                return (f"(py_state states_ {t})", NAT)
            if ty == EDGE and e.attr in ("is_growth", "is_tumor_spread"):
                return (f"({e.attr} {t})", BOOL)
            raise Untranslatable(f"attribute {e.attr} of a {ty}")
        if isinstance(e, ast.Call) and isinstance(e.func, ast.Attribute) and not e.args and not e.keywords:
            if e.func.attr == "values":
                t, ty = self.expr(e.func.value)
                if ty == NODES:
                    return ("(g_nodes self_)" if t == "(nodes_dict self_)" else f"(map snd {t})", NODELIST)
                if ty == EDGES:
                    return ("(g_edges self_)" if t == "(edges_dict self_)" else f"(map snd {t})", EDGELIST)
                if ty == STATEDICT:
                    return (f"(map snd {t})", NATS)
                raise Untranslatable(f".values() of a {ty}")
            if e.func.attr == "get_name" and self.get_name_default is not None:
                return (f"(gen_get_name {self.var(e.func.value, EDGE)} {_string_lit(self.get_name_default)})", STR)
        if _call(e) and not e.keywords and len(e.args) == 1 and e.func.id == "set":
            return (f"(py_set (conns_items {self.var(e.args[0], CONNS)}))", SET)
        if _call(e) and not e.keywords and len(e.args) == 1 and e.func.id == "list":
            t, ty = self.expr(e.args[0])
            if ty != NATS:
                raise Untranslatable(f"list(<{ty}>)")
            return (t, NATS)
        if _call(e) and not e.keywords and len(e.args) == 1 and e.func.id == "len":
            t, ty = self.expr(e.args[0])
            if ty == CONNS:
                return (f"(length (conns_items {t}))", NAT)
            if ty in (SET, GDICT, NODES, EDGES):
                return (f"(length {t})", NAT)
            raise Untranslatable(f"len of a {ty}")
        if _call(e, "isinstance") and not e.keywords and len(e.args) == 2 and isinstance(e.args[1], ast.Name):
            t, ty = self.expr(e.args[0])
            cls = e.args[1].id
            if ty == CONNS and cls == "set":
                return (f"(conns_is_set {t})", BOOL)
            if ty == NODE and cls == "Tumor":
                return (f"(n_tumor {t})", BOOL)
            if ty == NODE and cls == "LymphNodeLevel":
                return (f"(negb (n_tumor {t}))", BOOL)
            raise Untranslatable(f"isinstance(<{ty}>, {cls})")
        if _call(e) and e.func.id in ("Tumor", "LymphNodeLevel"):
            want = {"Tumor": ["name", "state"], "LymphNodeLevel": ["name", "allowed_states"]}[e.func.id]
            name, other = _kwargs(e, want)
            if not (isinstance(other, ast.Name) and self.ctor_params.get(want[1]) == other.id):
                raise Untranslatable(f"{e.func.id}({want[1]}=...) is not the parameter {self.ctor_params.get(want[1])}")
            return (f"(py_{e.func.id} {self.var(name, STR)})", NODE)
        if isinstance(e, ast.IfExp):
            (a, ta), (b, tb) = self.expr(e.body), self.expr(e.orelse)
            if ta != tb:
                raise Untranslatable("conditional expression with branches of different types")
            return (f"(if {self.boolean(e.test)} then {a} else {b})", ta)
        if isinstance(e, ast.Tuple) and len(e.elts) == 2:
            return (f"({self.var(e.elts[0], STR)}, {self.var(e.elts[1], STR)})", KEY)
        if isinstance(e, ast.JoinedStr):
            parts = []
            for v in e.values:
                if not (isinstance(v, ast.FormattedValue) and v.conversion == -1 and v.format_spec is None):
                    raise Untranslatable("f-string with literal text / conversions")
                parts.append(self.var(v.value, STR))
            if len(parts) < 2:
                raise Untranslatable("f-string")
            return ("(" + " ++ ".join(parts) + ")", STR)
        if isinstance(e, ast.ListComp) and len(e.generators) == 1:
            gen = e.generators[0]
            if not (isinstance(gen.target, ast.Name) and not gen.is_async and gen.target.id not in self.env
                    and gen.target.id != "_"):
                raise Untranslatable("comprehension target")
            it, ity = self.expr(gen.iter)
            if ity != EDGELIST:
                raise Untranslatable(f"comprehension over a {ity}")
            inner = self.sub({gen.target.id: EDGE})
            x = g(gen.target.id)
            src = it
            if len(gen.ifs) > 1:
                raise Untranslatable("comprehension with several conditions")
            for c in gen.ifs:
                src = f"(filter (fun {x} => {inner.boolean(c)}) {src})"
            return (f"(map (fun {x} => {inner.var(e.elt, STR)}) {src})", STRS)
        if isinstance(e, ast.UnaryOp) and isinstance(e.op, ast.Not):
            return (f"(negb {self.boolean(e.operand)})", BOOL)
        if isinstance(e, ast.BoolOp) and isinstance(e.op, ast.And):
            return ("(" + " && ".join(self.boolean(x) for x in e.values) + ")", BOOL)
        if isinstance(e, ast.Compare) and len(e.ops) == 1:
            op, a, b = e.ops[0], e.left, e.comparators[0]
            if isinstance(op, ast.IsNot) and isinstance(b, ast.Constant) and b.value is None:
                self.var(a, NODE)             # an object stored in the dict of nodes is never None
                return ("true", BOOL)
            if isinstance(op, ast.In):
                return (f"(mem {self.var(a, STR)} (conns_items {self.var(b, CONNS)}))", BOOL)
            (ta, tya), (tb, tyb) = self.expr(a), self.expr(b)
            if isinstance(op, ast.Eq) and tya == tyb == STR:
                return (f"(str_eqb {ta} {tb})", BOOL)
            if isinstance(op, ast.NotEq) and tya == tyb == NAT:
                return (f"(negb (Nat.eqb {ta} {tb}))", BOOL)
            if isinstance(op, ast.Lt) and tya == tyb == NAT:
                return (f"(Nat.ltb {ta} {tb})", BOOL)
        raise Untranslatable(f"expression {ast.dump(e)[:200]}")

    def boolean(self, e) -> str:
        t, ty = self.expr(e)
        if ty != BOOL:
            raise Untranslatable(f"boolean expected, got {ty}: {ast.dump(e)[:100]}")
        return t

    def sub(self, extra: dict) -> "Py":
        p = Py({**self.env, **extra}, self.attrs, self.empties, self.self_graph, self.tri, self.ctor_params,
               self.get_name_default, self.heap, self.key_error)
        p.raising = self.raising
        return p

    # ---- `if TEST: raise CLS(...)` ------------------------------------------------------------------------------------
    def raise_label(self, t) -> str:
        """the label (key of RAISES) of a guard"""
        def is_len(x, inner=None):
            return _call(x, "len") and len(x.args) == 1 and not x.keywords and (inner is None or inner(x.args[0]))

        def conns(x):
            return isinstance(x, ast.Name) and self.env.get(x.id) == CONNS
        if _call(t, "isinstance") and len(t.args) == 2 and conns(t.args[0]) and isinstance(t.args[1], ast.Name) \
                and t.args[1].id == "set":
            return "conn_is_set"
        if isinstance(t, ast.Compare) and len(t.ops) == 1:
            op, a, b = t.ops[0], t.left, t.comparators[0]
            if isinstance(op, ast.NotEq) and is_len(a, conns) and is_len(b) and _call(b.args[0], "set") \
                    and len(b.args[0].args) == 1 and conns(b.args[0].args[0]) and b.args[0].args[0].id == a.args[0].id:
                return "dup_conn"
            if isinstance(op, ast.In) and isinstance(a, ast.Name) and self.env.get(a.id) == STR and conns(b):
                return "self_conn"
            if isinstance(op, ast.NotEq) and is_len(a) and isinstance(a.args[0], ast.Name) and self.env.get(a.args[0].id) == SET \
                    and is_len(b) and isinstance(b.args[0], ast.Name) and self.env.get(b.args[0].id) == GDICT:
                return "dup_name"
            if isinstance(op, ast.Lt) and is_len(a) and isinstance(b, ast.Constant) and b.value == 1 and not isinstance(b.value, bool):
                ch = _attr_chain(a.args[0])
                if ch == ["self", "tumors"]:
                    return "no_tumor"
                if ch == ["self", "lnls"]:
                    return "no_lnl"
        raise Untranslatable(f"`raise` under a test that is not one of the six known guards: {ast.dump(t)[:160]}")

    def guard(self, s):
        """if TEST: raise CLS(...) -> (test text, model error) | None"""
        if not (isinstance(s, ast.If) and len(s.body) == 1 and isinstance(s.body[0], ast.Raise)):
            return None
        r = s.body[0]
        if s.orelse or r.cause is not None or not (_call(r.exc) and not r.exc.keywords):
            raise Untranslatable("`if T: raise` with else / from / a bare exception")
        err, cls = RAISES[self.raise_label(s.test)]
        if r.exc.func.id != cls:
            raise Untranslatable(f"{err} is a {cls}, the code raises {r.exc.func.id}")
        return self.boolean(s.test), err

    # ---- statements ------------------------------------------------------------------------------------------------
    def target_var(self, t):
        """the python local an assignment target NAME / self._ATTR denotes"""
        if isinstance(t, ast.Name):
            return t.id
        ch = _attr_chain(t)
        if ch is not None and len(ch) == 2 and ch[0] == "self" and ch[1] in self.attrs:
            return self.attrs[ch[1]]
        return None

    def assigned(self, stmts) -> list:
        """locals (re)bound by the statements: NAME = ..., NAME[...] = ..., NAME.add / .append(...), loop targets"""
        out = []

        def add(n):
            if n is not None and n != "_" and n not in out:
                out.append(n)
        for s in stmts:
            for n in ast.walk(s):
                if isinstance(n, (ast.Assign, ast.AnnAssign, ast.AugAssign)):
                    for t in (n.targets if isinstance(n, ast.Assign) else [n.target]):
                        for x in (t.elts if isinstance(t, ast.Tuple) else [t]):
                            if self.heap and isinstance(x, ast.Attribute) and x.attr == "state" and isinstance(x.value, ast.Name):
                                add("states")
                            add(self.target_var(x.value if isinstance(x, ast.Subscript) else x))
                elif isinstance(n, ast.Expr) and isinstance(n.value, ast.Call) and isinstance(n.value.func, ast.Attribute) \
                        and n.value.func.attr in ("add", "append"):
                    add(self.target_var(n.value.func.value))
                elif isinstance(n, ast.For):
                    for x in ast.walk(n.target):
                        if isinstance(x, ast.Name):
                            add(x.id)
        return out

    @staticmethod
    def may_raise(stmts) -> bool:
        for s in stmts:
            for n in ast.walk(s):
                if isinstance(n, ast.Raise) or (_call(n, "Edge")):
                    return True
                if isinstance(n, ast.Attribute) and isinstance(n.ctx, ast.Store) and n.attr == "state":
                    return True
                if isinstance(n, ast.Subscript) and isinstance(n.ctx, ast.Load) and _attr_chain(n.value) in (["self", "nodes"], ["self", "_nodes"]):
                    return True
        return False

    def ok(self, t: str) -> str:
        return f"inr {t}" if self.raising else t

    def loop_source(self, it, target):
        """-> (list text, binder text, {bound name: type})"""
        def names(t, n):
            if isinstance(t, ast.Tuple) and len(t.elts) == n and all(isinstance(x, ast.Name) for x in t.elts):
                return [x.id for x in t.elts]
            raise Untranslatable(f"loop target {ast.dump(t)[:120]}")
        if (isinstance(it, ast.Call) and isinstance(it.func, ast.Attribute) and it.func.attr == "items" and not it.args
                and not it.keywords and isinstance(it.func.value, ast.Name) and self.env.get(it.func.value.id) == GDICT):
            if not (isinstance(target, ast.Tuple) and len(target.elts) == 2 and isinstance(target.elts[1], ast.Name)):
                raise Untranslatable("target of a loop over graph.items()")
            a, b = names(target.elts[0], 2)
            c = target.elts[1].id
            bound = {a: STR, b: STR, c: CONNS}
            binder = f"'((({g(a)}, {g(b)}), {g(c)}) : entry)"
            lst = g(it.func.value.id)
        elif (isinstance(it, ast.Call) and isinstance(it.func, ast.Attribute) and it.func.attr == "items" and not it.args
              and not it.keywords and isinstance(it.func.value, ast.Name) and self.env.get(it.func.value.id) == STATEDICT):
            a, b = names(target, 2)
            bound = {a: STR, b: NAT}
            binder = f"'(({g(a)}, {g(b)}) : string * nat)"
            lst = g(it.func.value.id)
        elif _call(it, "zip"):
            # zip(ARGS, NODES, strict=False): stops at the shorter one
            if not (len(it.args) == 2 and len(it.keywords) == 1 and it.keywords[0].arg == "strict"
                    and isinstance(it.keywords[0].value, ast.Constant) and it.keywords[0].value.value is False):
                raise Untranslatable("zip(...) is not zip(A, B, strict=False)")
            a, b = names(target, 2)
            bound = {a: NAT, b: NODE}
            binder = f"'(({g(a)}, {g(b)}) : nat * node)"
            lst = f"(combine {self.var(it.args[0], NATS)} {self.var(it.args[1], NODELIST)})"
        elif isinstance(it, ast.Name) and self.env.get(it.id) == GDICT:
            a, b = names(target, 2)
            bound = {a: STR, b: STR}
            binder = f"'((({g(a)}, {g(b)}), _) : entry)"
            lst = g(it.id)
        else:
            t, ty = self.expr(it)
            if not isinstance(target, ast.Name):
                raise Untranslatable("loop target")
            if ty == CONNS:
                lst, bound = f"(conns_items {t})", {target.id: STR}
            elif ty == NODELIST:
                lst, bound = t, {target.id: NODE}
            else:
                raise Untranslatable(f"loop over a {ty}")
            binder = f"({g(target.id)} : {bound[target.id].strip()})"
        bound.pop("_", None)
        if len(set(bound)) != len([n for n in bound]) or any(n in self.env for n in bound):
            raise Untranslatable("loop variables shadow other variables")
        return lst, binder, bound

    def block(self, stmts, fall: str | None) -> str:
        """`fall`: the term when the block falls through (None = not allowed)"""
        if not stmts:
            if fall is None:
                raise Untranslatable("block falls through")
            return fall
        s, rest = stmts[0], stmts[1:]
        gd = self.guard(s)
        if gd is not None:
            if not self.raising:
                raise Untranslatable("raise in a function that is read as total")
            return f"if {gd[0]} then inl {gd[1]} else\n  {self.block(rest, fall)}"
        if isinstance(s, ast.Return) and s.value is not None:
            if rest:
                raise Untranslatable("code after return")
            v = s.value
            if isinstance(v, ast.IfExp) and isinstance(v.test, ast.Name) and self.env.get(v.test.id) == BOOL \
                    and self.expr(v.body)[1] != self.expr(v.orelse)[1]:
                if self.raising:
                    raise Untranslatable("a return of two types in a function that may raise")
                return f"if {g(v.test.id)} then inl {self.expr(v.body)[0]} else inr {self.expr(v.orelse)[0]}"
            return self.ok(self.expr(s.value)[0])
        if isinstance(s, ast.If):
            if any(isinstance(n, (ast.Return, ast.Raise, ast.Break, ast.Continue)) for x in s.body + s.orelse for n in ast.walk(x)):
                raise Untranslatable("return / raise / break / continue inside an `if` that falls through")
            t = self.boolean(s.test)
            if not rest:
                a = self.sub({}).block(s.body, fall)
                b = self.sub({}).block(s.orelse, fall)
                return f"if {t} then\n  {a}\n  else {b}"
            live = [n for n in self.assigned(s.body + s.orelse) if n in self.env]
            if any(n in _free_reads(rest) for n in self.assigned(s.body + s.orelse) if n not in self.env) or len(live) != 1:
                raise Untranslatable(f"`if` followed by code must rebind exactly one existing variable (rebinds {live})")
            acc = g(live[0])
            a = self.sub({}).block(s.body, self.ok(acc))
            b = self.sub({}).block(s.orelse, self.ok(acc))
            if self.raising:
                return (f"match (if {t} then\n  {a}\n  else {b}) with\n  | inl e => inl e\n  | inr {acc} =>\n  "
                        f"{self.block(rest, fall)}\n  end")
            return f"let {acc} := (if {t} then\n  {a}\n  else {b}) in\n  {self.block(rest, fall)}"
        if isinstance(s, ast.For):
            return self.loop(s, rest, fall)
        # S.add(E) | L.append(E)
        if isinstance(s, ast.Expr) and isinstance(s.value, ast.Call) and isinstance(s.value.func, ast.Attribute) \
                and len(s.value.args) == 1 and not s.value.keywords and isinstance(s.value.func.value, ast.Name):
            name, attr = s.value.func.value.id, s.value.func.attr
            if attr == "add" and self.env.get(name) == SET:
                return f"let {g(name)} := py_set_add {self.var(s.value.args[0], STR)} {g(name)} in\n  {self.block(rest, fall)}"
            if attr == "append" and self.env.get(name) == NATSS:
                return f"let {g(name)} := {g(name)} ++ [{self.var(s.value.args[0], NATS)}] in\n  {self.block(rest, fall)}"
        if isinstance(s, (ast.Assign, ast.AnnAssign)) and (isinstance(s, ast.AnnAssign) or len(s.targets) == 1) and s.value is not None:
            tg = s.target if isinstance(s, ast.AnnAssign) else s.targets[0]
            v = s.value
            # X.state = E: the setter of AbstractNode.state on an LNL
            if self.heap and isinstance(tg, ast.Attribute) and tg.attr == "state" and isinstance(tg.value, ast.Name):
                if not (self.raising and isinstance(s, ast.Assign)):
                    raise Untranslatable("X.state = E in a total function")
                x, val = self.var(tg.value, NODE), self.var(v, NAT)
                return (f"match gen_node_set_state (g_base self_) states_ {x} {val} with\n  | inl e => inl e\n  | inr states_ =>\n  "
                        f"{self.block(rest, fall)}\n  end")
            name = self.target_var(tg)
            if name is not None:
                if name == "_":
                    raise Untranslatable("assignment to _")
                # empty literal
                empty = ((isinstance(v, ast.Dict) and not v.keys) or (isinstance(v, ast.List) and not v.elts)
                         or (_call(v, "set") and not v.args and not v.keywords))
                if empty:
                    ty = self.empties.get(name)
                    lit = {NODES: (ast.Dict, "[]"), EDGES: (ast.Dict, "[]"), KDICT: (ast.Dict, "[]"), STATEDICT: (ast.Dict, "[]"),
                           NATSS: (ast.List, "[]"),
                           SET: (ast.Call, "py_set_empty")}.get(ty)
                    if lit is None or not isinstance(v, lit[0]):
                        raise Untranslatable(f"{name} = <empty literal>: no / another type declared for {name}")
                    self.env[name] = ty
                    val = lit[1] if ty == SET else f"({lit[1]} : {ty})"
                    return f"let {g(name)} := {val} in\n  {self.block(rest, fall)}"
                if name in self.attrs.values() and not isinstance(tg, ast.Name):
                    raise Untranslatable(f"self.{tg.attr} = <not an empty dict>")
                # NAME = self.nodes[K]
                if isinstance(v, ast.Subscript) and self.self_attr(v.value) is not None:
                    d, dty = self.self_attr(v.value)
                    if dty != NODES or not self.raising:
                        raise Untranslatable("subscript of a dict that is not the dict of nodes / in a total function")
                    k = self.var(v.slice, STR)
                    self.env[name] = NODE
                    return (f"match dict_get {k} {d} with\n  | None => inl {self.key_error}\n  | Some {g(name)} =>\n  "
                            f"{self.block(rest, fall)}\n  end")
                # NAME = Edge(parent=P, child=C)
                if _call(v, "Edge"):
                    if not self.raising:
                        raise Untranslatable("Edge(...) in a total function")
                    p, c = _kwargs(v, ["parent", "child"])
                    p, c = self.var(p, NODE), self.var(c, NODE)
                    self.env[name] = EDGE
                    return (f"match py_Edge {p} {c} with\n  | inl e => inl e\n  | inr {g(name)} =>\n  "
                            f"{self.block(rest, fall)}\n  end")
                t, ty = self.expr(v)
                self.env[name] = ty
                return f"let {g(name)} := {t} in\n  {self.block(rest, fall)}"
            # D[K] = E
            if isinstance(tg, ast.Subscript) and self.target_var(tg.value) is not None:
                d = self.target_var(tg.value)
                dty = self.env.get(d)
                if dty == KDICT:
                    k, val, f = self.var(tg.slice, KEY), self.var(v, STRS), "kdict_set"
                elif dty in (NODES, EDGES, STATEDICT):
                    k, val, f = self.var(tg.slice, STR), self.var(v, {NODES: NODE, EDGES: EDGE, STATEDICT: NAT}[dty]), "dict_set"
                else:
                    raise Untranslatable(f"item assignment on {d} : {dty}")
                return f"let {g(d)} := {f} {k} {val} {g(d)} in\n  {self.block(rest, fall)}"
        raise Untranslatable(f"statement {type(s).__name__}: {ast.dump(s)[:160]}")

    def loop(self, s: ast.For, rest, fall) -> str:
        if s.orelse or any(isinstance(n, (ast.Return, ast.Break, ast.Continue)) for x in s.body for n in ast.walk(x)):
            raise Untranslatable("for-else / return / break / continue inside a loop")
        lst, binder, bound = self.loop_source(s.iter, s.target)
        inner = self.sub(bound)
        assigned = inner.assigned(s.body)
        acc = [n for n in assigned if n in self.env]
        if len(acc) != 1:
            raise Untranslatable(f"a loop must rebind exactly one variable defined before it (rebinds {acc})")
        if any(n in _free_reads(rest) for n in list(bound) + assigned if n != acc[0]):
            raise Untranslatable("a variable bound inside the loop is used after it")
        a, ty = g(acc[0]), self.env[acc[0]].strip()
        if self.raising and self.may_raise(s.body):
            body = inner.block(list(s.body), f"inr {a}")
            return (f"match py_for (fun {binder} ({a} : {ty}) =>\n  {body}) {lst} {a} with\n  | inl e => inl e\n  | inr {a} =>\n  "
                    f"{self.block(rest, fall)}\n  end")
        inner.raising = False
        body = inner.block(list(s.body), a)
        return f"let {a} :=\n  fold_left (fun ({a} : {ty}) {binder} =>\n  {body}) {lst} {a} in\n  {self.block(rest, fall)}"


# ----------------------------------------------------------------------------------------------------------------------
# the supporting definitions the reading relies on
# ----------------------------------------------------------------------------------------------------------------------
def _norm(stmts) -> str:
    """dump of statements without docstrings, annotations of assignments and the arguments of raised exceptions"""
    mod = ast.Module(body=[ast.parse(ast.unparse(x)).body[0] for x in _strip_doc(list(stmts))], type_ignores=[])
    for n in ast.walk(mod):
        if isinstance(n, ast.Raise) and isinstance(n.exc, ast.Call):
            n.exc.args, n.exc.keywords = [], []
    out = []
    for x in mod.body:
        if isinstance(x, ast.AnnAssign) and x.value is not None:
            x = ast.Assign(targets=[x.target], value=x.value)
        out.append(ast.dump(x))
    return "\n".join(out)


def _expect(tree, cls, name, text, decorator=None):
    fns = [n for n in next((c.body for c in tree.body if isinstance(c, ast.ClassDef) and c.name == cls), [])
           if isinstance(n, ast.FunctionDef) and n.name == name]
    if decorator is None:
        fns = [f for f in fns if not any(isinstance(d, ast.Attribute) and d.attr == "setter" for d in f.decorator_list)]
    else:
        fns = [f for f in fns if any(isinstance(d, ast.Attribute) and d.attr == decorator for d in f.decorator_list)]
    if len(fns) != 1:
        raise Untranslatable(f"{cls}.{name}{' (setter)' if decorator else ''} is not defined exactly once")
    if _norm(fns[0].body) != _norm(ast.parse(text).body):
        raise Untranslatable(f"{cls}.{name}{' (setter)' if decorator else ''} is not\n{text}")
    return fns[0]


def _graph_tree(edge_ctor=False, node_name=True):
    tree = ast.parse(_src("lymph/graph.py"))
    _expect(tree, "Edge", "is_growth", "return self.parent == self.child")
    _expect(tree, "Edge", "is_tumor_spread", "return isinstance(self.parent, Tumor)")
    _expect(tree, "Representation", "nodes", "return self._nodes")
    _expect(tree, "Representation", "edges", "return self._edges")
    _expect(tree, "LymphNodeLevel", "is_trinary", "return len(self.allowed_states) == 3")
    if node_name:
        _expect(tree, "AbstractNode", "name", "return self._name")
        _expect(tree, "AbstractNode", "name", "self._name = str(new_name)", decorator="setter")
    for cls in ("AbstractNode", "Tumor", "LymphNodeLevel", "Edge"):
        body = next((c.body for c in tree.body if isinstance(c, ast.ClassDef) and c.name == cls), None)
        if body is None:
            raise Untranslatable(f"class {cls} not found")
        if any(isinstance(n, ast.FunctionDef) and n.name in ("__eq__", "__ne__", "__getattr__", "__getattribute__", "__setattr__", "__new__")
               for n in body):
            raise Untranslatable(f"{cls} overrides equality / attribute access / construction")
    if edge_ctor:
        init = _expect(tree, "Edge", "__init__",
                       "self.parent = parent\nself.child = child\n"
                       "if not isinstance(self.parent, Tumor) and self.parent.is_trinary and (not self.is_growth):\n"
                       "    self.micro_mod = micro_mod\nself.spread_prob = spread_prob")
        a = init.args
        if [x.arg for x in a.args] != ["self", "parent", "child", "spread_prob", "micro_mod"] or a.vararg or a.kwarg or a.kwonlyargs \
                or [ast.literal_eval(d) for d in a.defaults] != [0.0, 1.0]:
            raise Untranslatable("signature / defaults of Edge.__init__")
        _expect(tree, "Edge", "parent", "return self._parent")
        _expect(tree, "Edge", "child", "return self._child")
        _expect(tree, "Edge", "parent",
                "if hasattr(self, '_parent'):\n    self.parent.out.remove(self)\n"
                "if not issubclass(new_parent.__class__, AbstractNode):\n    raise TypeError()\n"
                "self._parent = new_parent\nself.parent.out.append(self)", decorator="setter")
        _expect(tree, "Edge", "child",
                "if hasattr(self, '_child'):\n    self.child.inc.remove(self)\n"
                "if not isinstance(new_child, LymphNodeLevel):\n    raise TypeError()\n"
                "self._child = new_child\nself.child.inc.append(self)", decorator="setter")
        for cls, want in (("Tumor", ["self", "name", "state"]), ("LymphNodeLevel", ["self", "name", "state", "allowed_states"])):
            if [x.arg for x in _func(tree, "__init__", cls).args.args] != want:
                raise Untranslatable(f"signature of {cls}.__init__")
    return tree


def _imported(tree, module, name):
    ok = any(isinstance(n, ast.ImportFrom) and n.module == module and n.level == 0
             and any(a.name == name and a.asname is None for a in n.names) for n in tree.body)
    redefined = any(isinstance(n, (ast.FunctionDef, ast.ClassDef)) and n.name == name for n in tree.body) or any(
        isinstance(n, ast.Assign) and any(isinstance(t, ast.Name) and t.id == name for t in n.targets) for n in tree.body)
    if not ok or redefined:
        raise Untranslatable(f"{name} is not (only) imported from {module}")


def _sig(fn, want, defaults=None):
    a = fn.args
    if [x.arg for x in a.args] != want or a.vararg or a.kwarg or a.kwonlyargs or a.posonlyargs:
        raise Untranslatable(f"{fn.name}: signature {[x.arg for x in a.args]}")
    have = [ast.literal_eval(d) if isinstance(d, ast.Constant) else ast.dump(d) for d in a.defaults]
    if have != (defaults or []):
        raise Untranslatable(f"{fn.name}: defaults {have}")


def _is_property(fn) -> bool:
    return any(isinstance(d, ast.Name) and d.id == "property" for d in fn.decorator_list)


# ----------------------------------------------------------------------------------------------------------------------
# the pieces
# ----------------------------------------------------------------------------------------------------------------------
def _def_check_unique_names() -> str:
    tree = ast.parse(_src("lymph/utils.py"))
    if sum(1 for n in tree.body if isinstance(n, ast.FunctionDef) and n.name == "check_unique_names") != 1:
        raise Untranslatable("utils.check_unique_names is not defined exactly once")
    fn = _func(tree, "check_unique_names")
    _sig(fn, ["graph"])
    st = _strip_doc(fn.body)
    sets = [s.targets[0].id for s in st if isinstance(s, ast.Assign) and len(s.targets) == 1 and isinstance(s.targets[0], ast.Name)
            and _call(s.value, "set") and not s.value.args]
    p = Py({"graph": GDICT}, empties={n: SET for n in sets})
    p.raising = True
    return f"Definition gen_check_unique_names (graph_ : gdict) : gerr + unit :=\n  {p.block(st, 'inr tt')}.\n"


def translate_check_unique_names() -> str:
    return (_def_check_unique_names()
            + "Lemma gen_check_unique_names_np : forall d, gen_check_unique_names d = np_check_unique_names d.\n"
              "Proof. intros. reflexivity. Qed.\n"
              "Lemma gen_check_unique_names_eq : forall d,\n"
              "  gen_check_unique_names d = match check_unique_names d with Some e => inl e | None => inr tt end.\n"
              "Proof. intros d. rewrite gen_check_unique_names_np. apply np_check_unique_names_eq. Qed.\n")


def _dict_comprehension(tree, prop: str, src_attr: str, val_ty: str) -> str:
    """@property def PROP(self): return {K: V for K, V in self.SRC.items() if COND}  ->  filter"""
    fn = _func(tree, prop, "Representation")
    _sig(fn, ["self"])
    st = _strip_doc(fn.body)
    if not (_is_property(fn) and len(st) == 1 and isinstance(st[0], ast.Return) and isinstance(st[0].value, ast.DictComp)):
        raise Untranslatable(f"Representation.{prop} is not a property returning a dict comprehension")
    c = st[0].value
    gen = c.generators[0] if len(c.generators) == 1 else None
    ok = (gen is not None and not gen.is_async and isinstance(gen.target, ast.Tuple) and len(gen.target.elts) == 2
          and all(isinstance(x, ast.Name) for x in gen.target.elts) and isinstance(gen.iter, ast.Call) and not gen.iter.args
          and not gen.iter.keywords and _attr_chain(gen.iter.func) == ["self", src_attr, "items"] and len(gen.ifs) == 1)
    if not ok:
        raise Untranslatable(f"Representation.{prop}: not `{{K: V for K, V in self.{src_attr}.items() if COND}}`")
    k, v = (x.id for x in gen.target.elts)
    if not (isinstance(c.key, ast.Name) and c.key.id == k and isinstance(c.value, ast.Name) and c.value.id == v and k != v
            and "_" not in (k, v) and "self" not in (k, v)):
        raise Untranslatable(f"Representation.{prop}: the comprehension does not copy key and value")
    cond = Py({k: STR, v: val_ty}).boolean(gen.ifs[0])
    dty = NODES if val_ty == NODE else EDGES
    return (f"Definition gen_{prop} ({src_attr}_ : {dty}) : {dty} :=\n"
            f"  filter (fun '(({g(k)}, {g(v)}) : string * {val_ty}) => {cond}) {src_attr}_.\n")


def _def_init_nodes(tree) -> str:
    fn = _func(tree, "_init_nodes", "Representation")
    _sig(fn, ["self", "graph", "tumor_state", "allowed_lnl_states"])
    p = Py({"graph": GDICT}, attrs={"_nodes": "nodes", "nodes": "nodes"}, empties={"nodes": NODES},
           ctor_params={"state": "tumor_state", "allowed_states": "allowed_lnl_states"})
    p.raising = True
    body = p.block(_strip_doc(fn.body), "inr nodes_")
    return (_dict_comprehension(tree, "tumors", "nodes", NODE) + _dict_comprehension(tree, "lnls", "nodes", NODE)
            + f"Definition gen_init_nodes (graph_ : gdict) : gerr + {NODES} :=\n  {body}.\n")


def translate_init_nodes() -> str:
    return (_def_init_nodes(_graph_tree(edge_ctor=True))
            + "Lemma gen_init_nodes_np : forall d, gen_init_nodes d = np_init_nodes d.\n"
              "Proof. intros. reflexivity. Qed.\n"
              "Lemma gen_init_nodes_eq : forall d,\n"
              "  gen_init_nodes d =\n"
              "  (let nodes := init_nodes d [] in\n"
              "   if Nat.eqb (length (filter (fun kv => n_tumor (snd kv)) nodes)) 0 then inl ENoTumor\n"
              "   else if Nat.eqb (length (filter (fun kv => negb (n_tumor (snd kv))) nodes)) 0 then inl ENoLnl\n"
              "   else inr nodes).\n"
              "Proof. intros d. rewrite gen_init_nodes_np. apply np_init_nodes_eq. Qed.\n")


def _def_get_name(tree):
    fn = _func(tree, "get_name", "Edge")
    a = fn.args
    if len(a.args) != 2 or a.args[0].arg != "self" or a.vararg or a.kwarg or a.kwonlyargs or len(a.defaults) != 1 \
            or not (isinstance(a.defaults[0], ast.Constant) and isinstance(a.defaults[0].value, str)):
        raise Untranslatable("signature of Edge.get_name")
    mid = a.args[1].arg
    st = _strip_doc(fn.body)
    p = Py({"self": EDGE, mid: STR})
    # if self.is_growth: return A  ;  return B
    if not (len(st) == 2 and isinstance(st[0], ast.If) and not st[0].orelse and len(st[0].body) == 1
            and isinstance(st[0].body[0], ast.Return) and isinstance(st[1], ast.Return)):
        raise Untranslatable("Edge.get_name is not `if T: return A` followed by `return B`")
    t = p.boolean(st[0].test)
    x, y = p.var(st[0].body[0].value, STR), p.var(st[1].value, STR)
    strip = (lambda z: z[1:-1] if z.startswith("(") and z.endswith(")") and " ++ " in z else z)
    return (f"Definition gen_get_name (self_ : edge) ({g(mid)} : string) : string :=\n"
            f"  if {t} then {x}\n  else {strip(y)}.\n", a.defaults[0].value)


def _def_init_edges(tree) -> str:
    name_def, default = _def_get_name(tree)
    fn = _func(tree, "_init_edges", "Representation")
    _sig(fn, ["self", "graph"])
    p = Py({"graph": GDICT}, attrs={"_edges": "edges", "edges": "edges", "nodes": "nodes", "_nodes": "nodes"},
           empties={"edges": EDGES}, tri=True, get_name_default=default)
    p.env["nodes"] = NODES
    p.raising = True
    body = p.block(_strip_doc(fn.body), "inr edges_")
    return (name_def + f"Definition gen_init_edges (tri : bool) (nodes_ : {NODES}) (graph_ : gdict) : gerr + {EDGES} :=\n  {body}.\n")


def translate_init_edges() -> str:
    return (_def_init_edges(_graph_tree(edge_ctor=True))
            + "Lemma gen_init_edges_np : forall tri nodes d, gen_init_edges tri nodes d = np_init_edges tri nodes d.\n"
              "Proof. intros. reflexivity. Qed.\n"
              "Lemma gen_init_edges_eq : forall tri nodes d,\n"
              "  (forall k n, dict_get k nodes = Some n -> n_name n = k) -> check_conns d = None ->\n"
              "  gen_init_edges tri nodes d = init_edges tri nodes d [].\n"
              "Proof. intros tri nodes d Hk Hc. rewrite gen_init_edges_np. apply np_init_edges_eq; assumption. Qed.\n")


def translate_representation() -> str:
    """__init__:  [if allowed_states is None: ...]  [if tumor_state is None: ...]  check_unique_names(graph_dict)
                  self._init_nodes(graph_dict, tumor_state, allowed_states)  self._init_edges(graph_dict)"""
    tree = _graph_tree(edge_ctor=True)
    _imported(tree, "lymph.utils", "check_unique_names")
    fn = _func(tree, "__init__", "Representation")
    _sig(fn, ["self", "graph_dict", "tumor_state", "allowed_states"], [None, None])
    st = _strip_doc(fn.body)

    def default(s, name):
        return (isinstance(s, ast.If) and not s.orelse and len(s.body) == 1 and isinstance(s.body[0], ast.Assign)
                and len(s.body[0].targets) == 1 and isinstance(s.body[0].targets[0], ast.Name) and s.body[0].targets[0].id == name
                and ast.dump(s.test) == ast.dump(ast.parse(f"{name} is None", mode="eval").body))
    k = 0
    for name in ("allowed_states", "tumor_state"):
        if k < len(st) and default(st[k], name):
            k += 1
    calls = st[k:]
    want = ["check_unique_names(graph_dict)", "self._init_nodes(graph_dict, tumor_state, allowed_states)",
            "self._init_edges(graph_dict)"]
    if [ast.dump(c) for c in calls] != [ast.dump(ast.parse(w).body[0]) for w in want]:
        raise Untranslatable("Representation.__init__ is not (defaults;) " + "; ".join(want))
    return (_def_check_unique_names() + _def_init_nodes(tree) + _def_init_edges(tree)
            + "Definition gen_Representation (base : nat) (graph_dict_ : gdict) : gerr + graph :=\n"
              "  match gen_check_unique_names graph_dict_ with\n  | inl e => inl e\n  | inr _ =>\n"
              "  match gen_init_nodes graph_dict_ with\n  | inl e => inl e\n  | inr nodes_ =>\n"
              "  match gen_init_edges (Nat.eqb base 3) nodes_ graph_dict_ with\n  | inl e => inl e\n  | inr edges_ =>\n"
              "  inr {| g_base := base; g_nodes := map snd nodes_; g_edges := map snd edges_ |}\n  end end end.\n"
              "Lemma gen_Representation_np : forall base d, gen_Representation base d = np_Representation base d.\n"
              "Proof. intros. reflexivity. Qed.\n"
              "Lemma gen_Representation_eq : forall base d, gen_Representation base d = build_graph base d.\n"
              "Proof. intros base d. rewrite gen_Representation_np. apply np_Representation_eq. Qed.\n")


def translate_to_dict() -> str:
    tree = _graph_tree(edge_ctor=True)
    fn = _func(tree, "to_dict", "Representation")
    _sig(fn, ["self"])
    st = _strip_doc(fn.body)
    first = st[0].targets[0].id if st and isinstance(st[0], ast.Assign) and isinstance(st[0].targets[0], ast.Name) else None
    p = Py({}, empties={first: KDICT} if first else {}, self_graph=True)
    body = p.block(st, None)
    return (f"Definition gen_to_dict (self_ : graph) : {KDICT} :=\n  {body}.\n"
            "Lemma gen_to_dict_np : forall g, gen_to_dict g = np_to_dict g.\n"
            "Proof. intros. reflexivity. Qed.\n"
            "Lemma gen_to_dict_eq : forall g,\n"
            "  NoDup (map (fun n => (if n_tumor n then \"tumor\" else \"lnl\", n_name n)) (g_nodes g)) -> gen_to_dict g = to_dict g.\n"
            "Proof. intros g H. rewrite gen_to_dict_np. apply np_to_dict_eq. exact H. Qed.\n"
            "Lemma gen_to_dict_built : forall base d g, build_graph base d = inr g -> gen_to_dict g = to_dict g.\n"
            "Proof. intros base d g H. rewrite gen_to_dict_np. apply (np_to_dict_built base d). exact H. Qed.\n")


def _def_gen_state_list(tree) -> str:
    """L = []; for X in self.lnls.values(): L.append(X.allowed_states); self._state_list = np.array(list(product(*L)))"""
    _imported(tree, "itertools", "product")
    fn = _func(tree, "_gen_state_list", "Representation")
    _sig(fn, ["self"])
    st = _strip_doc(fn.body)
    if len(st) < 2:
        raise Untranslatable("_gen_state_list: too short")
    last = st[-1]
    first = st[0].targets[0].id if isinstance(st[0], ast.Assign) and isinstance(st[0].targets[0], ast.Name) else None
    want = ast.dump(ast.parse(f"self._state_list = np.array(list(product(*{first})))").body[0])
    if first is None or ast.dump(last) != want:
        raise Untranslatable("_gen_state_list does not end in `self._state_list = np.array(list(product(*L)))`")
    p = Py({}, empties={first: NATSS}, self_graph=True)
    body = p.block(st[:-1], f"py_product {g(first)}")
    return (_dict_comprehension(tree, "lnls", "nodes", NODE)
            + f"Definition gen_gen_state_list (self_ : graph) : {STATES} :=\n  {body}.\n")


def translate_gen_state_list() -> str:
    return (_def_gen_state_list(_graph_tree())
            + "Lemma gen_gen_state_list_np : forall g, gen_gen_state_list g = np_gen_state_list g.\n"
              "Proof. intros. reflexivity. Qed.\n"
              "Lemma gen_gen_state_list_eq : forall g, gen_gen_state_list g = state_list g.\n"
              "Proof. intros g. rewrite gen_gen_state_list_np. apply np_gen_state_list_eq. Qed.\n"
              "Lemma gen_gen_state_list_all : forall g, gen_gen_state_list g = all_states (g_base g) (length (lnls g)).\n"
              "Proof. intros g. rewrite gen_gen_state_list_eq. reflexivity. Qed.\n")


def translate_state_list() -> str:
    """try: return self._state_list  except AttributeError: self._gen_state_list(); return self._state_list"""
    tree = _graph_tree()
    fn = _func(tree, "state_list", "Representation")
    _sig(fn, ["self"])
    st = _strip_doc(fn.body)
    want = ("try:\n    return self._state_list\nexcept AttributeError:\n    self._gen_state_list()\n    return self._state_list")
    if not _is_property(fn) or _norm(st) != _norm(ast.parse(want).body):
        raise Untranslatable("Representation.state_list is not the property\n" + want)
    return (_def_gen_state_list(tree)
            + f"Definition gen_state_list (self_ : graph) (state_list_attr : option ({STATES})) : option ({STATES}) * {STATES} :=\n"
              "  match state_list_attr with\n"
              "  | Some state_list_ => (Some state_list_, state_list_)\n"
              "  | None =>\n"
              "      let state_list_ := gen_gen_state_list self_ in\n"
              "      (Some state_list_, state_list_)\n  end.\n"
              "Lemma gen_state_list_np : forall g c, gen_state_list g c = np_state_list g c.\n"
              "Proof. intros. reflexivity. Qed.\n"
              "Lemma gen_state_list_eq : forall g c, c = None \\/ c = Some (state_list g) ->\n"
              "  gen_state_list g c = (Some (state_list g), state_list g).\n"
              "Proof. intros g c H. rewrite gen_state_list_np. apply np_state_list_eq. exact H. Qed.\n")


def translate_edge_views() -> str:
    tree = _graph_tree()
    return ("".join(_dict_comprehension(tree, p, "edges", EDGE) for p in ("tumor_edges", "lnl_edges", "growth_edges"))
            + "Lemma gen_edge_views_np : forall es,\n"
              "  gen_tumor_edges es = np_tumor_edges es /\\ gen_lnl_edges es = np_lnl_edges es /\\ gen_growth_edges es = np_growth_edges es.\n"
              "Proof. intros. repeat split; reflexivity. Qed.\n"
              "Lemma gen_edge_views_eq : forall g,\n"
              "  gen_tumor_edges (edges_dict g) = map (fun e => (e_name e, e)) (tumor_edges g) /\\\n"
              "  gen_lnl_edges (edges_dict g) = map (fun e => (e_name e, e)) (lnl_edges g) /\\\n"
              "  gen_growth_edges (edges_dict g) = map (fun e => (e_name e, e)) (growth_edges g).\n"
              "Proof.\n  intros g. destruct (gen_edge_views_np (edges_dict g)) as [-> [-> ->]].\n"
              "  split; [apply np_tumor_edges_eq|split; [apply np_lnl_edges_eq|apply np_growth_edges_eq]].\nQed.\n")


def translate_get_name() -> str:
    tree = _graph_tree(edge_ctor=True)
    name_def, default = _def_get_name(tree)
    d = _string_lit(default)
    return (name_def
            + "Lemma gen_get_name_np : forall e m, gen_get_name e m = np_get_name e m.\n"
              "Proof. intros. reflexivity. Qed.\n"
              f"Lemma gen_get_name_eq : (forall p c e, py_Edge p c = inr e -> gen_get_name e {d} = e_name e) /\\\n"
              f"  (forall base d g e, build_graph base d = inr g -> In e (g_edges g) -> gen_get_name e {d} = e_name e).\n"
              "Proof.\n  split.\n  - intros p c e H. rewrite gen_get_name_np. apply (py_Edge_get_name p c). exact H.\n"
              "  - intros base d g e H Hin. rewrite gen_get_name_np. apply (np_get_name_built base d g H). exact Hin.\nQed.\n")


def _no_local_named_states(fn):
    if any(isinstance(n, ast.Name) and n.id == "states" for n in ast.walk(fn)) or any(a.arg == "states" for a in fn.args.args):
        raise Untranslatable(f"{fn.name}: a local named `states` would capture the heap of node states")


def _def_node_set_state(tree) -> str:
    """@state.setter def state(self, P): P = int(P); if P not in self.allowed_states: raise ValueError(...); self._state = P"""
    _expect(tree, "AbstractNode", "state", "return self._state")
    body = next(c.body for c in tree.body if isinstance(c, ast.ClassDef) and c.name == "AbstractNode")
    fns = [f for f in body if isinstance(f, ast.FunctionDef) and f.name == "state"
           and any(isinstance(d, ast.Attribute) and d.attr == "setter" for d in f.decorator_list)]
    if len(fns) != 1 or len(fns[0].args.args) != 2:
        raise Untranslatable("the setter of AbstractNode.state is not defined exactly once with one parameter")
    x = fns[0].args.args[1].arg
    if x in ("self", "states", "base", "_"):
        raise Untranslatable("parameter name of the setter of AbstractNode.state")
    want = (f"{x} = int({x})\nif {x} not in self.allowed_states:\n    raise ValueError()\nself._state = {x}")
    if _norm(fns[0].body) != _norm(ast.parse(want).body):
        raise Untranslatable("the setter of AbstractNode.state is not\n" + want)
    for cls in ("Tumor", "LymphNodeLevel"):
        cb = next(c.body for c in tree.body if isinstance(c, ast.ClassDef) and c.name == cls)
        if any(isinstance(n, ast.FunctionDef) and n.name == "state" for n in cb) or any(
                isinstance(n, ast.Assign) and any(isinstance(t, ast.Name) and t.id == "state" for t in n.targets) for n in cb):
            raise Untranslatable(f"{cls} overrides the property state")
    return (f"Definition gen_node_set_state (base : nat) (states_ : node_states) (self_ : node) ({g(x)} : nat) : state_err + node_states :=\n"
            f"  let {g(x)} := {g(x)} in\n"
            f"  if negb (nat_mem {g(x)} (seq 0 base)) then inl SEValue else\n"
            f"  let states_ := dict_set (n_name self_) {g(x)} states_ in\n  inr states_.\n")


def translate_get_state() -> str:
    tree = _graph_tree()
    _expect(tree, "AbstractNode", "state", "return self._state")
    fn = _func(tree, "get_state", "Representation")
    _sig(fn, ["self", "as_dict"], [False])
    _no_local_named_states(fn)
    st = _strip_doc(fn.body)
    first = st[0].targets[0].id if st and isinstance(st[0], ast.Assign) and isinstance(st[0].targets[0], ast.Name) else None
    p = Py({"as_dict": BOOL}, empties={first: STATEDICT} if first else {}, self_graph=True, heap=True)
    body = p.block(st, None)
    return (_dict_comprehension(tree, "lnls", "nodes", NODE)
            + f"Definition gen_get_state (self_ : graph) (states_ : node_states) (as_dict_ : bool) : {STATEDICT} + list nat :=\n  {body}.\n"
            "Lemma gen_get_state_np : forall g st d, gen_get_state g st d = np_get_state g st d.\n"
            "Proof. intros. reflexivity. Qed.\n"
            "Lemma gen_get_state_eq : forall g st d, NoDup (lnls g) ->\n"
            "  gen_get_state g st d = if d then inl (map (fun n => (n_name n, py_state st n)) (lnl_nodes g))\n"
            "                         else inr (map (py_state st) (lnl_nodes g)).\n"
            "Proof. intros g st d H. rewrite gen_get_state_np. apply np_get_state_eq. exact H. Qed.\n")


def translate_set_state() -> str:
    tree = _graph_tree()
    fn = _func(tree, "set_state", "Representation")
    a = fn.args
    if [x.arg for x in a.args] != ["self"] or a.vararg is None or a.kwarg is None or a.kwonlyargs or a.defaults:
        raise Untranslatable("signature of Representation.set_state")
    _no_local_named_states(fn)
    va, kw = a.vararg.arg, a.kwarg.arg
    p = Py({va: NATS, kw: STATEDICT}, self_graph=True, heap=True, key_error="SEKey")
    p.raising = True
    body = p.block(_strip_doc(fn.body), "inr states_")
    return (_def_node_set_state(tree) + _dict_comprehension(tree, "lnls", "nodes", NODE)
            + f"Definition gen_set_state (self_ : graph) (states_ : node_states) ({g(va)} : list nat) ({g(kw)} : {STATEDICT})\n"
              f"  : state_err + node_states :=\n  {body}.\n"
            "Lemma gen_node_set_state_np : forall b st n v, gen_node_set_state b st n v = np_node_set_state b st n v.\n"
            "Proof. intros. reflexivity. Qed.\n"
            "Lemma gen_set_state_np : forall g st a kw, gen_set_state g st a kw = np_set_state g st a kw.\n"
            "Proof. intros. reflexivity. Qed.\n"
            "Lemma gen_set_state_positional : forall g st x,\n"
            "  NoDup (lnls g) -> length x = nlnls g -> Forall (fun v => v < g_base g) x ->\n"
            "  exists st', gen_set_state g st x [] = inr st' /\\\n"
            "    (forall i, i < nlnls g -> py_state st' (nth i (lnl_nodes g) {| n_tumor := false; n_name := \"\" |}) = digit i x) /\\\n"
            "    np_get_state g st' false = inr x /\\\n"
            "    (forall k, ~ In k (lnls g) -> dict_get k st' = dict_get k st).\n"
            "Proof. intros g st x H1 H2 H3. rewrite gen_set_state_np. apply np_set_state_positional; assumption. Qed.\n"
            "Lemma gen_set_state_rest : forall g st,\n"
            "  (forall x1 v x2, length x1 < nlnls g -> Forall (fun v => v < g_base g) x1 -> g_base g <= v ->\n"
            "     gen_set_state g st (x1 ++ v :: x2) [] = inl SEValue) /\\\n"
            "  (forall n v, NoDup (map n_name (g_nodes g)) -> In n (g_nodes g) -> v < g_base g ->\n"
            "     gen_set_state g st [] [(n_name n, v)] = inr (if n_tumor n then st else dict_set (n_name n) v st)) /\\\n"
            "  (forall k v, ~ In k (map n_name (g_nodes g)) -> gen_set_state g st [] [(k, v)] = inl SEKey).\n"
            "Proof.\n  intros g st. split; [|split]; intros; rewrite gen_set_state_np;\n"
            "    [apply np_set_state_rejects|apply np_set_state_keyword|apply np_set_state_unknown]; assumption.\nQed.\n"
            "Print Assumptions gen_set_state_rest.\n")


HEADER = ("(* GENERATED on every run by harness/translate10.py from the Python source of lymph; do not edit *)\n"
          "From LymphModel Require Import Base States Graph Transition GraphStatements GraphProofs NumpyGraph.\n"
          "Local Open Scope nat_scope.\nLocal Open Scope string_scope.\nLocal Open Scope list_scope.\n\n")

PIECES = {
    "check_unique_names": (translate_check_unique_names, "gen_check_unique_names_eq", "lymph/utils.py check_unique_names"),
    "init_nodes": (translate_init_nodes, "gen_init_nodes_eq", "lymph/graph.py Representation._init_nodes (tumors, lnls)"),
    "init_edges": (translate_init_edges, "gen_init_edges_eq", "lymph/graph.py Representation._init_edges (Edge.get_name)"),
    "representation": (translate_representation, "gen_Representation_eq",
                       "lymph/graph.py Representation.__init__ (check_unique_names, _init_nodes, _init_edges)"),
    "to_dict": (translate_to_dict, "gen_to_dict_built", "lymph/graph.py Representation.to_dict"),
    "gen_state_list": (translate_gen_state_list, "gen_gen_state_list_eq", "lymph/graph.py Representation._gen_state_list"),
    "state_list": (translate_state_list, "gen_state_list_eq", "lymph/graph.py Representation.state_list"),
    "edge_views": (translate_edge_views, "gen_edge_views_eq", "lymph/graph.py Representation.tumor_edges / lnl_edges / growth_edges"),
    "get_name": (translate_get_name, "gen_get_name_eq", "lymph/graph.py Edge.get_name"),
    "get_state": (translate_get_state, "gen_get_state_eq", "lymph/graph.py Representation.get_state"),
    "set_state": (translate_set_state, "gen_set_state_positional", "lymph/graph.py Representation.set_state (AbstractNode.state setter)"),
}


def generate(piece: str) -> str:
    fn, lemma, _ = PIECES[piece]
    return HEADER + fn() + f"Print Assumptions {lemma}.\n"


if __name__ == "__main__":
    import sys
    for p in (sys.argv[1:] or PIECES):
        print(generate(p))
