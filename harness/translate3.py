"""Source-to-Gallina translator, third part: the numerical pipelines of `lymph.models.Unilateral`.

On every run the methods

  Unilateral.evolve            -> gen_evolve          (= Unilateral.evolve                 for an N x N transition matrix)
  Unilateral.state_dist_evo    -> gen_state_dist_evo  (= Unilateral.state_dist_evo)
  Unilateral.state_dist        -> gen_state_dist      (= Unilateral.state_dist: HMM branch `pmf @ state_dists`, BN branch
                                                         the double loop over states and LNLs multiplying comp_bayes_net_prob)
  Unilateral.obs_dist          -> gen_obs_dist        (= Unilateral.obs_dist / obs_dist_of)
  Unilateral._bn_likelihood    -> gen_bn_likelihood   (= Unilateral.bn_likelihood_factors: `state_dist @ diagnosis_matrix.T`)
  Unilateral._hmm_likelihood   -> gen_hmm_likelihood  (= Unilateral.hmm_likelihood_factors: per stage
                                                         `pmf @ evolved_model @ diagnosis_matrix(t).T`, stages concatenated)

are parsed with `ast` from $LYMPH_REPO/lymph/models/unilateral.py and re-generated as Gallina terms over the numpy
primitives of coq/theories/NumpyPipelines.v (`np_vecmat` = `v @ M` whose width is the number of COLUMNS OF M,
`np_transpose` = `.T`, `np_zeros2`, `np_ones1`, `np_set2` = `M[i, j] = x`, `np_set_row` = `M[i] = row`, `np_row` = `M[i]`,
`np_mul_at` = `v[i] *= x`, `np_range`, `np_enumerate`).  The generated file proves (1) by `reflexivity` (conversion) that
the generated term is the hand-written numpy-semantics definition `np_<function>` of NumpyPipelines.v and (2) with the
static theorem `np_<function>_model` that it equals the model definition of Unilateral.v, for every model `u` with
`wf_graphb (u_graph u) = true` (and `lnls (u_graph u) <> []` where the BN branch is involved: an empty LNL loop never
reaches the NotImplementedError of a trinary node).  A piece that calls other translated methods (`self.evolve`,
`self.state_dist_evo`, `self.state_dist`) re-generates those as well, in the same file.

Fail-closed: every statement / expression form not listed in `Pipe` raises `Untranslatable`.

What the translator itself ASSUMES (trusted reading of the lymph objects; everything else is proved):
  * `self.transition_matrix()`, `self.observation_matrix()`  are pure calls returning the same 2-D array every time; they
    become the parameters `transition_matrix`, `observation_matrix` (instantiated with the model's matrices, which are
    tied to the source by the pieces generate_transition / observation of translate2.py / translate.py);
  * `self.graph.state_list` is a list of states (`len(...)` its length, `enumerate(...)` positions from 0),
    `self.max_time` a natural number, `self.graph.lnls.values()` the list of LNL nodes (a node = position and name);
  * `self.get_distribution(T).pmf` = `pmf_of T`, `self.diagnosis_matrix(T)` = `diagnosis_matrix T`,
    `self.get_t_stages("valid")` = `valid_t_stages`: parameters; the first two may raise (type `res`), and an exception
    propagates in Python's evaluation order (left to right, statement by statement; the first one wins);
  * `NODE.comp_bayes_net_prob()` evaluated after `self.graph.set_state(*STATE)` is `bnp STATE NODE : res Qc` (instantiated
    with `bn_reading`: NotImplementedError for trinary graphs, else `bn_node_prob`; that reading is the obligation
    comp_bayes_net_prob of translate2.py).  A call that is not preceded by `set_state` in the same block is rejected;
  * `mode` is "HMM" or "BN" (`hmm : bool`; `mode == "HMM"` = `hmm`, `mode == "BN"` = `negb hmm`), keyword defaults are
    read from the `def` line (`t_stage="early"`, `mode="HMM"`);
  * the likelihood value is kept as the LIST OF ITS FACTORS (log / sum / prod are taken outside Coq): `0.0 if log else 1.0`
    is the empty list, `add_or_mult(llh, X, log)` appends X (the body of `utils.add_or_mult` is checked to be
    `if log: return llh + np.sum(np.log(arr))` / `return llh * np.prod(arr)`), and
    `return np.sum(np.log(X)) if log else np.prod(X)` returns the factors X;
  * shapes fit (numpy raises ValueError / IndexError on operands whose shapes do not fit; the list primitives do not):
    under the hypotheses of the lemmas they do; Python ints used as sizes / indices are naturals.
"""
from __future__ import annotations

import ast

from .translate import Untranslatable, _func, _src, _strip_doc
from .translate2 import _attr_chain

NAT, Q, VEC, MAT, STR, OSTR, OVEC, MODE, LSTR, FACT, STATE, NODE, LOG = (
    "nat", "Qc", "vec", "mat", "string", "option string", "option vec", "mode", "list string", "factors", "state",
    "nat * string", "log")
GALLINA_TY = {NAT: "nat", Q: "Qc", VEC: "vec", MAT: "mat", STR: "string", OSTR: "option string", OVEC: "option vec",
              MODE: "bool", LSTR: "list string", FACT: "vec", STATE: "state", NODE: "nat * string"}
ERR = {"ValueError": "MValue", "KeyError": "MKey", "NotImplementedError": "MNotImpl", "AttributeError": "MAttr"}

# context parameters (readings of `self`, see the module docstring), in the order of the np_... definitions
CTX_TY = {"transition_matrix": "mat", "state_list": "list state", "max_time": "nat", "pmf_of": "string -> res vec",
          "nodes": "list (nat * string)", "bnp": "state -> nat * string -> res Qc", "observation_matrix": "mat",
          "diagnosis_matrix": "option string -> res mat", "valid_t_stages": "list string"}
SIX = ["transition_matrix", "state_list", "max_time", "pmf_of", "nodes", "bnp"]

# method -> (gen name, context parameters, python signature [(name, default-as-python-repr | None)], argument types,
#            returns res?, result type)
METHODS = {
    "evolve": ("gen_evolve", ["transition_matrix"], [("state_dist", None), ("num_steps", None)],
               {"state_dist": VEC, "num_steps": NAT}, False, VEC),
    "state_dist_evo": ("gen_state_dist_evo", ["transition_matrix", "state_list", "max_time"], [], {}, False, MAT),
    "state_dist": ("gen_state_dist", SIX, [("t_stage", "'early'"), ("mode", "'HMM'")],
                   {"t_stage": STR, "mode": MODE}, True, VEC),
    "obs_dist": ("gen_obs_dist", SIX + ["observation_matrix"],
                 [("given_state_dist", "None"), ("t_stage", "'early'"), ("mode", "'HMM'")],
                 {"given_state_dist": OVEC, "t_stage": STR, "mode": MODE}, True, VEC),
    "_bn_likelihood": ("gen_bn_likelihood", SIX + ["diagnosis_matrix"], [("log", "True"), ("t_stage", "None")],
                       {"log": LOG, "t_stage": OSTR}, True, FACT),
    "_hmm_likelihood": ("gen_hmm_likelihood",
                        ["transition_matrix", "state_list", "max_time", "pmf_of", "diagnosis_matrix", "valid_t_stages"],
                        [("log", "True"), ("t_stage", "None")], {"log": LOG, "t_stage": OSTR}, True, FACT),
}


def _signature(fn: ast.FunctionDef):
    a = fn.args
    if a.vararg or a.kwarg or a.kwonlyargs or a.posonlyargs:
        raise Untranslatable(f"{fn.name}: signature")
    names = [x.arg for x in a.args]
    if not names or names[0] != "self":
        raise Untranslatable(f"{fn.name}: not a method")
    names = names[1:]
    dflt = [None] * (len(names) - len(a.defaults)) + [repr(ast.literal_eval(d)) if isinstance(d, ast.Constant) else "?"
                                                       for d in a.defaults]
    return list(zip(names, dflt))


def _is_const(e, value) -> bool:
    return isinstance(e, ast.Constant) and type(e.value) is type(value) and e.value == value


def _check_add_or_mult():
    """utils.add_or_mult(llh, arr, log): `if log: return llh + np.sum(np.log(arr))` / `return llh * np.prod(arr)`"""
    fn = _func(ast.parse(_src("lymph/utils.py")), "add_or_mult")
    if [a.arg for a in fn.args.args] != ["llh", "arr", "log"]:
        raise Untranslatable("utils.add_or_mult: signature")
    st = _strip_doc(fn.body)
    want = ast.parse("if log:\n    return llh + np.sum(np.log(arr))\nreturn llh * np.prod(arr)").body
    if [ast.dump(s) for s in st] != [ast.dump(s) for s in want]:
        raise Untranslatable("utils.add_or_mult is not `if log: return llh + np.sum(np.log(arr))` / `return llh * np.prod(arr)`")


def _factors_of(v: ast.IfExp):
    """`np.sum(np.log(X)) if log else np.prod(X)` -> X"""
    b, o = v.body, v.orelse
    ok = (isinstance(b, ast.Call) and _attr_chain(b.func) == ["np", "sum"] and len(b.args) == 1 and not b.keywords
          and isinstance(b.args[0], ast.Call) and _attr_chain(b.args[0].func) == ["np", "log"]
          and len(b.args[0].args) == 1 and not b.args[0].keywords
          and isinstance(o, ast.Call) and _attr_chain(o.func) == ["np", "prod"] and len(o.args) == 1 and not o.keywords
          and ast.dump(b.args[0].args[0]) == ast.dump(o.args[0]))
    return b.args[0].args[0] if ok else None


class Pipe:
    """statements   NAME = E | NAME[i, j] = E | NAME[i] = E | NAME[i] *= E | for TARGET in ITER: BODY (one accumulator)
                    | if mode == "HMM"/"BN": BLOCK-ending-in-return | if X is None: X = E | if X is None: A = E1 else: A = E2
                    | self.graph.set_state(*STATE) | return E | raise ERROR(...) (last statement)
                    | llh = 0.0 if log else 1.0 | llh = add_or_mult(llh, E, log) | return np.sum(np.log(E)) if log else np.prod(E)
       expressions  names, naturals, integral floats, + - on naturals, A @ B, X.T, M[i], len(self.graph.state_list),
                    np.zeros(shape=(a, b)), np.ones(shape=(a,), dtype=float), [NAME], the readings of `self` listed in the
                    module docstring and calls of the translated methods of METHODS
       iterables    range(n) | range(a, b) | enumerate(self.graph.state_list) | self.graph.lnls.values() | NAME : list of strings"""

    def __init__(self, method: str, sigs: dict):
        self.method = method
        self.gen, self.ctx, _, self.argty, self.res, self.rty = METHODS[method]
        self.sigs = sigs                 # method -> actual python signature [(name, default repr)]
        self.env = {}
        for n, ty in self.argty.items():
            self.env[n] = ("hmm" if ty == MODE else n, ty)
        self.pending = []                # [(fresh name, res-typed text)] raised-or-value sub-expressions, evaluation order
        self.count = 0
        self.cur_state = None            # name of the state the graph was last set to (self.graph.set_state(*NAME))
        self.calls = []                  # translated methods this body calls

    # ---- context ---------------------------------------------------------------------------------------------------
    def need(self, name: str) -> str:
        if name not in self.ctx:
            raise Untranslatable(f"{self.method} uses `{name}`, which is not among the things it reads in the model")
        return name

    def fresh(self) -> str:
        n = f"v'{self.count}"            # not a Python identifier: cannot capture a translated variable
        self.count += 1
        return n

    RESERVED = set(CTX_TY) | {"bind", "inr", "inl", "fold_left", "length", "Some", "None", "acc", "hmm", "negb", "true", "false",
                              "vec", "mat", "res", "nat", "string", "list", "option", "bool", "Qc", "app",
                              "MValue", "MKey", "MNotImpl", "MAttr", "fun", "let", "in", "if", "then", "else", "match", "with",
                              "end", "forall", "exists", "as", "fix", "Type", "Prop", "Set", "at", "using", "where"}

    def binder(self, name: str) -> str:
        """a Python variable that becomes a Gallina binder must not capture a name the translator emits"""
        if name in self.RESERVED or name.startswith(("np_", "gen_")) or not name.isidentifier() or not name.isascii():
            raise Untranslatable(f"{self.method}: variable name `{name}` clashes with a name of the generated term")
        return name

    def effect(self, text: str, ty: str):
        if not self.res:
            raise Untranslatable(f"{self.method}: a call that may raise in a function modelled as total")
        n = self.fresh()
        self.pending.append((n, text))
        return (n, ty)

    def take(self):
        p, self.pending = self.pending, []
        return p

    @staticmethod
    def binds(pending, text: str) -> str:
        for n, r in reversed(pending):
            text = f"bind {r} (fun {n} =>\n  {text})"
        return text

    # ---- expressions -----------------------------------------------------------------------------------------------
    def want(self, e, ty: str) -> str:
        t, have = self.expr(e)
        if have != ty:
            raise Untranslatable(f"{self.method}: expected a {ty}, found a {have}: {ast.dump(e)[:120]}")
        return t

    def mode_arg(self, e) -> str:
        if isinstance(e, ast.Name) and self.env.get(e.id, (None, None))[1] == MODE:
            return "hmm"
        if _is_const(e, "HMM"):
            return "true"
        if _is_const(e, "BN"):
            return "false"
        raise Untranslatable(f"mode argument {ast.dump(e)[:80]}")

    def tstage_arg(self, e, ty: str) -> str:
        """a T-stage passed where the callee expects `ty` (STR or OSTR)"""
        if isinstance(e, ast.Constant) and isinstance(e.value, str):
            t, have = f'"{e.value}"%string', STR
            if '"' in e.value:
                raise Untranslatable("T-stage literal")
        elif _is_const(e, None):
            t, have = "None", OSTR
        else:
            t, have = self.expr(e)
        if have == ty:
            return t
        if have == STR and ty == OSTR:
            return f"(Some {t})"
        raise Untranslatable(f"{self.method}: T-stage argument of type {have} where {ty} is expected")

    def call_method(self, name: str, call: ast.Call):
        gen, ctx, want_sig, argty, res, rty = METHODS[name]
        if self.sigs[name] != want_sig:
            raise Untranslatable(f"signature of {name}: {self.sigs[name]} (expected {want_sig})")
        got = {}
        for k, a in enumerate(call.args):
            if isinstance(a, ast.Starred) or k >= len(want_sig):
                raise Untranslatable(f"arguments of self.{name}")
            got[want_sig[k][0]] = a
        for k in call.keywords:
            if k.arg is None or k.arg not in argty or k.arg in got:
                raise Untranslatable(f"keyword argument of self.{name}")
            got[k.arg] = k.value
        args = []
        before = len(self.pending)
        for pname, dflt in want_sig:
            ty = argty[pname]
            if pname in got:
                a = got[pname]
            elif dflt is not None:
                a = ast.parse(dflt, mode="eval").body
            else:
                raise Untranslatable(f"self.{name}: missing argument {pname}")
            if ty == MODE:
                args.append(self.mode_arg(a))
            elif ty in (STR, OSTR):
                args.append(self.tstage_arg(a, ty))
            elif ty == OVEC:
                if _is_const(a, None):
                    args.append("None")
                else:
                    args.append(f"(Some {self.want(a, VEC)})")
            elif ty == LOG:
                continue
            else:
                args.append(self.want(a, ty))
        if len(self.pending) != before:      # keeps the evaluation order of several raising calls trivially right
            raise Untranslatable(f"self.{name}: an argument that may raise")
        for c in ctx:
            self.need(c)
        if name not in self.calls:
            self.calls.append(name)
        text = f"({gen} {' '.join(ctx + args)})"
        return self.effect(text, rty) if res else (text, rty)

    def expr(self, e):
        # literals
        if isinstance(e, ast.Constant) and type(e.value) is int and e.value >= 0:
            return (f"{e.value}%nat", NAT)
        if isinstance(e, ast.Constant) and type(e.value) is float and e.value == int(e.value) and e.value >= 0:
            return (f"{int(e.value)}%Qc", Q)
        if isinstance(e, ast.Name) and e.id in self.env:
            t, ty = self.env[e.id]
            if ty in (MODE, LOG):
                raise Untranslatable(f"`{e.id}` used as a value")
            return (t, ty)
        # attribute readings of self
        ch = _attr_chain(e)
        if ch == ["self", "max_time"]:
            return (self.need("max_time"), NAT)
        if isinstance(e, ast.Attribute) and e.attr == "T":
            return (f"(np_transpose 0%Qc {self.want(e.value, MAT)})", MAT)
        if isinstance(e, ast.Attribute) and e.attr == "pmf" and isinstance(e.value, ast.Call) \
                and _attr_chain(e.value.func) == ["self", "get_distribution"] and len(e.value.args) == 1 and not e.value.keywords:
            return self.effect(f"({self.need('pmf_of')} {self.tstage_arg(e.value.args[0], STR)})", VEC)
        # arithmetic on naturals
        if isinstance(e, ast.BinOp) and isinstance(e.op, (ast.Add, ast.Sub)):
            op = "+" if isinstance(e.op, ast.Add) else "-"
            return (f"({self.want(e.left, NAT)} {op} {self.want(e.right, NAT)})%nat", NAT)
        if isinstance(e, ast.BinOp) and isinstance(e.op, ast.MatMult):
            a = self.want(e.left, VEC)          # left operand first: Python's evaluation order
            b = self.want(e.right, MAT)
            return (f"(np_vecmat {a} {b})", VEC)
        if isinstance(e, ast.Subscript) and isinstance(e.value, ast.Name) and self.env.get(e.value.id, (None, None))[1] == MAT \
                and not isinstance(e.slice, (ast.Tuple, ast.Slice)):
            return (f"(np_row {self.env[e.value.id][0]} {self.want(e.slice, NAT)})", VEC)
        if isinstance(e, ast.List) and len(e.elts) == 1 and not isinstance(e.elts[0], ast.Starred):
            return (f"[{self.want(e.elts[0], STR)}]", LSTR)
        if isinstance(e, ast.Call):
            f = e.func
            fch = _attr_chain(f)
            if isinstance(f, ast.Name) and f.id == "len" and len(e.args) == 1 and not e.keywords \
                    and _attr_chain(e.args[0]) == ["self", "graph", "state_list"]:
                return (f"(length {self.need('state_list')})", NAT)
            if fch in (["np", "zeros"], ["np", "ones"]) and not e.args:
                kw = {k.arg: k.value for k in e.keywords}
                if fch[1] == "zeros" and set(kw) == {"shape"} and isinstance(kw["shape"], ast.Tuple) and len(kw["shape"].elts) == 2:
                    r, c = (self.want(x, NAT) for x in kw["shape"].elts)
                    return (f"(np_zeros2 {r} {c})", MAT)
                if fch[1] == "ones" and set(kw) == {"shape", "dtype"} and isinstance(kw["shape"], ast.Tuple) \
                        and len(kw["shape"].elts) == 1 and isinstance(kw["dtype"], ast.Name) and kw["dtype"].id == "float":
                    return (f"(np_ones1 {self.want(kw['shape'].elts[0], NAT)})", VEC)
                raise Untranslatable(f"np.{fch[1]} call")
            if fch == ["self", "transition_matrix"] and not e.args and not e.keywords:
                return (self.need("transition_matrix"), MAT)
            if fch == ["self", "observation_matrix"] and not e.args and not e.keywords:
                return (self.need("observation_matrix"), MAT)
            if fch == ["self", "diagnosis_matrix"] and len(e.args) == 1 and not e.keywords:
                return self.effect(f"({self.need('diagnosis_matrix')} {self.tstage_arg(e.args[0], OSTR)})", MAT)
            if fch == ["self", "get_t_stages"] and len(e.args) == 1 and not e.keywords and _is_const(e.args[0], "valid"):
                return (self.need("valid_t_stages"), LSTR)
            if fch is not None and len(fch) == 2 and fch[0] == "self" and fch[1] in METHODS:
                return self.call_method(fch[1], e)
            if fch is not None and len(fch) == 2 and fch[1] == "comp_bayes_net_prob" and not e.args and not e.keywords \
                    and self.env.get(fch[0], (None, None))[1] == NODE:
                if self.cur_state is None:
                    raise Untranslatable("comp_bayes_net_prob() without a preceding self.graph.set_state(*state)")
                return self.effect(f"({self.need('bnp')} {self.cur_state} {self.env[fch[0]][0]})", Q)
        raise Untranslatable(f"{self.method}: expression {ast.dump(e)[:200]}")

    # ---- iterables -------------------------------------------------------------------------------------------------
    def iterable(self, it, target):
        """-> (list text, binder text, {python name: (text, type)})"""
        def name(t):
            if not isinstance(t, ast.Name):
                raise Untranslatable("loop target")
            return t.id if t.id == "_" else self.binder(t.id)
        if isinstance(it, ast.Call) and isinstance(it.func, ast.Name) and it.func.id == "range" and not it.keywords \
                and len(it.args) in (1, 2):
            lo = "0%nat" if len(it.args) == 1 else self.want(it.args[0], NAT)
            hi = self.want(it.args[-1], NAT)
            v = name(target)
            return (f"(np_range {lo} {hi})", f"({v} : nat)", {} if v == "_" else {v: (v, NAT)})
        if isinstance(it, ast.Call) and isinstance(it.func, ast.Name) and it.func.id == "enumerate" and len(it.args) == 1 \
                and not it.keywords and _attr_chain(it.args[0]) == ["self", "graph", "state_list"] \
                and isinstance(target, ast.Tuple) and len(target.elts) == 2:
            i, s = name(target.elts[0]), name(target.elts[1])
            if "_" in (i, s) or i == s:
                raise Untranslatable("loop target")
            return (f"(np_enumerate {self.need('state_list')})", f"'({i}, {s})", {i: (i, NAT), s: (s, STATE)})
        if isinstance(it, ast.Call) and not it.args and not it.keywords \
                and _attr_chain(it.func) == ["self", "graph", "lnls", "values"]:
            v = name(target)
            return (self.need("nodes"), f"({v} : nat * string)", {v: (v, NODE)})
        if isinstance(it, ast.Name) and self.env.get(it.id, (None, None))[1] == LSTR:
            v = name(target)
            return (self.env[it.id][0], f"({v} : string)", {v: (v, STR)})
        raise Untranslatable(f"{self.method}: loop over {ast.dump(it)[:160]}")

    # ---- statements ------------------------------------------------------------------------------------------------
    RAISING = ("pmf", "diagnosis_matrix", "state_dist", "obs_dist", "_bn_likelihood", "_hmm_likelihood", "comp_bayes_net_prob")

    @classmethod
    def may_raise(cls, stmts) -> bool:
        for s in stmts:
            for n in ast.walk(s):
                if isinstance(n, ast.Raise) or (isinstance(n, ast.Attribute) and n.attr in cls.RAISING):
                    return True
        return False

    @staticmethod
    def assigned(stmts) -> list:
        out = []
        for s in stmts:
            for n in ast.walk(s):
                tg = None
                if isinstance(n, ast.Assign) and len(n.targets) == 1:
                    tg = n.targets[0]
                elif isinstance(n, ast.AugAssign):
                    tg = n.target
                if isinstance(tg, ast.Subscript):
                    tg = tg.value
                if isinstance(tg, ast.Name) and tg.id not in out:
                    out.append(tg.id)
        return out

    def ret(self, text: str) -> str:
        return f"inr {text}" if self.res else text

    def is_none_test(self, t):
        if (isinstance(t, ast.Compare) and len(t.ops) == 1 and isinstance(t.ops[0], ast.Is) and isinstance(t.left, ast.Name)
                and _is_const(t.comparators[0], None) and self.env.get(t.left.id, (None, None))[1] in (OSTR, OVEC)):
            return t.left.id
        return None

    def block(self, stmts, tail) -> str:
        if not stmts:
            if tail is None:
                raise Untranslatable(f"{self.method}: block falls through without return")
            return tail
        s, rest = stmts[0], stmts[1:]

        # return
        if isinstance(s, ast.Return):
            if rest or tail is not None or s.value is None:
                raise Untranslatable(f"{self.method}: return inside a loop / code after return")
            v = s.value
            if isinstance(v, ast.IfExp):            # np.sum(np.log(X)) if log else np.prod(X): the factors X
                if self.rty != FACT or not (isinstance(v.test, ast.Name) and self.env.get(v.test.id, (None, None))[1] == LOG):
                    raise Untranslatable("conditional return value")
                xa = _factors_of(v)
                if xa is None:
                    raise Untranslatable("return value is not `np.sum(np.log(X)) if log else np.prod(X)`")
                t = self.want(xa, VEC)
            else:
                t, ty = self.expr(v)
                if ty != self.rty:
                    raise Untranslatable(f"{self.method}: returns a {ty}, expected {self.rty}")
            return self.binds(self.take(), self.ret(t))

        # raise ERROR(...)
        if isinstance(s, ast.Raise):
            if rest or tail is not None or not self.res or s.cause is not None:
                raise Untranslatable("raise")
            exc = s.exc.func if isinstance(s.exc, ast.Call) else s.exc
            if not (isinstance(exc, ast.Name) and exc.id in ERR):
                raise Untranslatable("raised exception")
            return f"inl {ERR[exc.id]}"

        # self.graph.set_state(*STATE)
        if isinstance(s, ast.Expr):
            c = s.value
            if (isinstance(c, ast.Call) and _attr_chain(c.func) == ["self", "graph", "set_state"] and len(c.args) == 1
                    and not c.keywords and isinstance(c.args[0], ast.Starred) and isinstance(c.args[0].value, ast.Name)
                    and self.env.get(c.args[0].value.id, (None, None))[1] == STATE):
                self.cur_state = self.env[c.args[0].value.id][0]
                return self.block(rest, tail)
            raise Untranslatable(f"{self.method}: expression statement {ast.dump(s)[:120]}")

        # assignments
        if isinstance(s, ast.Assign) and len(s.targets) == 1:
            tg, v = s.targets[0], s.value
            if isinstance(tg, ast.Name):
                name = self.binder(tg.id)
                # llh = 0.0 if log else 1.0   (no factor yet)
                if isinstance(v, ast.IfExp):
                    if not (isinstance(v.test, ast.Name) and self.env.get(v.test.id, (None, None))[1] == LOG
                            and _is_const(v.body, 0.0) and _is_const(v.orelse, 1.0)):
                        raise Untranslatable("conditional expression")
                    self.env[name] = (name, FACT)
                    return f"let {name} : vec := [] in\n  {self.block(rest, tail)}"
                # llh = add_or_mult(llh, X, log)
                if isinstance(v, ast.Call) and isinstance(v.func, ast.Name) and v.func.id == "add_or_mult":
                    if not (len(v.args) == 3 and not v.keywords and isinstance(v.args[0], ast.Name) and v.args[0].id == name
                            and self.env.get(name, (None, None))[1] == FACT and isinstance(v.args[2], ast.Name)
                            and self.env.get(v.args[2].id, (None, None))[1] == LOG):
                        raise Untranslatable("add_or_mult call")
                    _check_add_or_mult()
                    x = self.want(v.args[1], VEC)
                    return self.binds(self.take(), f"let {name} := {self.env[name][0]} ++ {x} in\n  {self.block(rest, tail)}")
                t, ty = self.expr(v)
                pend = self.take()
                self.env[name] = (name, ty)
                if pend and pend[-1][0] == t:       # the value IS the last effect: bind it to the name directly
                    pend[-1] = (name, pend[-1][1])
                    return self.binds(pend, self.block(rest, tail))
                return self.binds(pend, f"let {name} := {t} in\n  {self.block(rest, tail)}")
            if isinstance(tg, ast.Subscript) and isinstance(tg.value, ast.Name) and self.env.get(tg.value.id, (None, None))[1] == MAT:
                m = tg.value.id
                if isinstance(tg.slice, ast.Tuple) and len(tg.slice.elts) == 2:
                    i, j = (self.want(x, NAT) for x in tg.slice.elts)
                    x = self.want(v, Q)
                    return self.binds(self.take(), f"let {m} := np_set2 {m} {i} {j} {x} in\n  {self.block(rest, tail)}")
                if not isinstance(tg.slice, (ast.Tuple, ast.Slice)):
                    i = self.want(tg.slice, NAT)
                    x = self.want(v, VEC)
                    return self.binds(self.take(), f"let {m} := np_set_row {m} {i} {x} in\n  {self.block(rest, tail)}")
            raise Untranslatable(f"{self.method}: assignment target {ast.dump(tg)[:120]}")
        if isinstance(s, ast.AugAssign) and isinstance(s.op, ast.Mult) and isinstance(s.target, ast.Subscript) \
                and isinstance(s.target.value, ast.Name) and self.env.get(s.target.value.id, (None, None))[1] == VEC \
                and not isinstance(s.target.slice, (ast.Tuple, ast.Slice)):
            vname = s.target.value.id
            i = self.want(s.target.slice, NAT)
            x = self.want(s.value, Q)
            return self.binds(self.take(), f"let {vname} := np_mul_at {vname} {i} {x} in\n  {self.block(rest, tail)}")

        # conditionals
        if isinstance(s, ast.If):
            t = s.test
            none_of = self.is_none_test(t)
            if none_of is not None:
                oty = self.env[none_of][1]
                inner = STR if oty == OSTR else VEC

                def single_assign(body):
                    if len(body) == 1 and isinstance(body[0], ast.Assign) and len(body[0].targets) == 1 \
                            and isinstance(body[0].targets[0], ast.Name):
                        return self.binder(body[0].targets[0].id), body[0].value
                    raise Untranslatable("`if X is None:` branch is not a single assignment")
                a, va = single_assign(s.body)
                saved = dict(self.env)
                ta, tya = self.expr(va)
                pa = self.take()
                if not s.orelse:                    # if X is None: X = E
                    if a != none_of or tya != inner:
                        raise Untranslatable("`if X is None: X = E` with another variable / type")
                    self.env[none_of] = (none_of, inner)
                    if pa:
                        if not (len(pa) == 1 and pa[0][0] == ta):
                            raise Untranslatable("default value with several effects")
                        return (f"bind (match {none_of} with None => {pa[0][1]} | Some {none_of} => inr {none_of} end) "
                                f"(fun {none_of} =>\n  {self.block(rest, tail)})")
                    return (f"let {none_of} := match {none_of} with None => {ta} | Some {none_of} => {none_of} end in\n  "
                            f"{self.block(rest, tail)}")
                b, vb = single_assign(s.orelse)     # if X is None: A = E1  else: A = E2
                self.env = dict(saved)
                self.env[none_of] = (none_of, inner)
                tb, tyb = self.expr(vb)
                pb = self.take()
                self.env = saved
                if a != b or tya != tyb or pa or pb or a == none_of:
                    raise Untranslatable("`if X is None: A = E1 else: A = E2`")
                self.env[a] = (a, tya)
                return (f"let {a} := match {none_of} with None => {ta} | Some {none_of} => {tb} end in\n  "
                        f"{self.block(rest, tail)}")
            if (isinstance(t, ast.Compare) and len(t.ops) == 1 and isinstance(t.ops[0], ast.Eq) and isinstance(t.left, ast.Name)
                    and self.env.get(t.left.id, (None, None))[1] == MODE and not s.orelse and tail is None
                    and s.body and isinstance(s.body[-1], (ast.Return, ast.Raise))):
                if _is_const(t.comparators[0], "HMM"):
                    test = "hmm"
                elif _is_const(t.comparators[0], "BN"):
                    test = "(negb hmm)"
                else:
                    raise Untranslatable("mode test")
                saved = (dict(self.env), self.cur_state)
                then = self.block(s.body, None)
                self.env, self.cur_state = saved
                return f"if {test} then (\n  {then})\n  else (\n  {self.block(rest, tail)})"
            raise Untranslatable(f"{self.method}: conditional {ast.dump(t)[:120]}")

        # loops
        if isinstance(s, ast.For) and not s.orelse:
            lst, binder, bound = self.iterable(s.iter, s.target)
            if self.pending:
                raise Untranslatable("iterable with effects")
            acc = [n for n in self.assigned(s.body) if n in self.env and n not in bound]
            if len(acc) != 1:
                raise Untranslatable(f"{self.method}: loop accumulators {acc}")
            a = acc[0]
            aty = self.env[a][1]
            saved = (dict(self.env), self.cur_state)
            self.env.update(bound)
            raising = self.may_raise(s.body)
            if raising and not self.res:
                raise Untranslatable(f"{self.method}: a call that may raise in a function modelled as total")
            if raising:
                inner = self.block(list(s.body), f"inr {a}")
                step = f"fun (acc : res {GALLINA_TY[aty]}) {binder} => bind acc (fun {a} =>\n    {inner})"
            else:
                inner = self.block(list(s.body), a)
                step = f"fun ({a} : {GALLINA_TY[aty]}) {binder} =>\n    {inner}"
            if self.pending:
                raise Untranslatable("unbound effect in a loop body")
            if self.env[a][1] != aty:
                raise Untranslatable("the accumulator changes its type")
            self.env, self.cur_state = saved
            for n in bound:                          # a loop variable that shadows a name is not readable afterwards
                self.env.pop(n, None)
            if raising:
                return f"bind (fold_left ({step})\n    {lst} (inr {a})) (fun {a} =>\n  {self.block(rest, tail)})"
            return f"let {a} := fold_left ({step})\n    {lst} {a} in\n  {self.block(rest, tail)}"
        raise Untranslatable(f"{self.method}: statement {type(s).__name__}: {ast.dump(s)[:160]}")


# ----------------------------------------------------------------------------------------------------------------------
# one definition per method, with the definitions of the translated methods it calls in front
# ----------------------------------------------------------------------------------------------------------------------
def _class_tree():
    tree = ast.parse(_src("lymph/models/unilateral.py"))
    sigs = {}
    for m in METHODS:
        sigs[m] = _signature(_func(tree, m, "Unilateral"))
    return tree, sigs


def _definition(tree, sigs, method: str):
    gen, ctx, want_sig, argty, res, rty = METHODS[method]
    if sigs[method] != want_sig:
        raise Untranslatable(f"signature of {method}: {sigs[method]} (expected {want_sig})")
    fn = _func(tree, method, "Unilateral")
    p = Pipe(method, sigs)
    body = p.block(_strip_doc(fn.body), None)
    params = " ".join(f"({c} : {CTX_TY[c]})" for c in ctx)
    args = " ".join(f"({'hmm' if ty == MODE else n} : {GALLINA_TY[ty]})" for n, ty in argty.items() if ty != LOG)
    out_ty = GALLINA_TY[rty]
    if res:
        out_ty = f"res {out_ty}"
    return f"Definition {gen} {params} {args} : {out_ty} :=\n  {body}.\n", p.calls


def _with_deps(method: str) -> str:
    tree, sigs = _class_tree()
    done, order = {}, []

    def visit(m, stack=()):
        if m in stack:
            raise Untranslatable(f"recursive call of {m}")
        if m in done:
            return
        text, calls = _definition(tree, sigs, m)
        for c in calls:
            visit(c, stack + (m,))
        done[m] = text
        order.append(m)
    visit(method)
    return "".join(done[m] for m in order)


U6 = ("(transition_matrix u) (u_states u) (u_maxt u) (get_pmf u) (np_enumerate (lnls (u_graph u))) "
      "(bn_reading (u_graph u))")


def translate_evolve() -> str:
    return (_with_deps("evolve")
            + "Lemma gen_evolve_np : forall T v k, gen_evolve T v k = np_evolve T v k.\n"
              "Proof. intros. reflexivity. Qed.\n"
              "Lemma gen_evolve_eq : forall u v k, wf_graphb (u_graph u) = true -> length v = (u_base u ^ u_n u)%nat ->\n"
              "  gen_evolve (transition_matrix u) v k = evolve (transition_matrix u) v k.\n"
              "Proof. intros u v k Hwf Hv. rewrite gen_evolve_np. apply np_evolve_model; assumption. Qed.\n")


def translate_state_dist_evo() -> str:
    return (_with_deps("state_dist_evo")
            + "Lemma gen_state_dist_evo_np : forall T sl m, gen_state_dist_evo T sl m = np_state_dist_evo T sl m.\n"
              "Proof. intros. reflexivity. Qed.\n"
              "Lemma gen_state_dist_evo_eq : forall u, wf_graphb (u_graph u) = true ->\n"
              "  gen_state_dist_evo (transition_matrix u) (u_states u) (u_maxt u) = state_dist_evo u.\n"
              "Proof. intros u Hwf. rewrite gen_state_dist_evo_np. apply np_state_dist_evo_model; assumption. Qed.\n")


def translate_state_dist() -> str:
    return (_with_deps("state_dist")
            + "Lemma gen_state_dist_np : forall T sl m pmf nodes bnp t hmm,\n"
              "  gen_state_dist T sl m pmf nodes bnp t hmm = np_state_dist T sl m pmf nodes bnp t hmm.\n"
              "Proof. intros. reflexivity. Qed.\n"
              "Lemma gen_state_dist_eq : forall u t hmm, wf_graphb (u_graph u) = true -> lnls (u_graph u) <> [] ->\n"
              f"  gen_state_dist {U6} t hmm = state_dist u t hmm.\n"
              "Proof. intros u t hmm Hwf Hl. rewrite gen_state_dist_np. apply np_state_dist_model; assumption. Qed.\n")


def translate_obs_dist() -> str:
    return (_with_deps("obs_dist")
            + "Lemma gen_obs_dist_np : forall T sl m pmf nodes bnp O given t hmm,\n"
              "  gen_obs_dist T sl m pmf nodes bnp O given t hmm = np_obs_dist T sl m pmf nodes bnp O given t hmm.\n"
              "Proof. intros. reflexivity. Qed.\n"
              "Lemma gen_obs_dist_eq : forall u t hmm, wf_graphb (u_graph u) = true -> lnls (u_graph u) <> [] ->\n"
              f"  gen_obs_dist {U6} (observation_matrix u) None t hmm = obs_dist u t hmm /\\\n"
              f"  forall sd, gen_obs_dist {U6} (observation_matrix u) (Some sd) t hmm = inr (obs_dist_of u sd).\n"
              "Proof.\n  intros u t hmm Hwf Hl. destruct (np_obs_dist_model u t hmm Hwf Hl) as [H1 H2]. split.\n"
              "  - rewrite gen_obs_dist_np. exact H1.\n  - intros sd. rewrite gen_obs_dist_np. apply H2.\nQed.\n")


def translate_bn_likelihood() -> str:
    return (_with_deps("_bn_likelihood")
            + "Lemma gen_bn_likelihood_np : forall T sl m pmf nodes bnp DM t,\n"
              "  gen_bn_likelihood T sl m pmf nodes bnp DM t = np_bn_likelihood T sl m pmf nodes bnp DM t.\n"
              "Proof. intros. reflexivity. Qed.\n"
              "Lemma gen_bn_likelihood_eq : forall u data t, wf_graphb (u_graph u) = true -> lnls (u_graph u) <> [] ->\n"
              f"  gen_bn_likelihood {U6} (diagnosis_matrix u data) t = bn_likelihood_factors u data t.\n"
              "Proof. intros u data t Hwf Hl. rewrite gen_bn_likelihood_np. apply np_bn_likelihood_model; assumption. Qed.\n")


def translate_hmm_likelihood() -> str:
    return (_with_deps("_hmm_likelihood")
            + "Lemma gen_hmm_likelihood_np : forall T sl m pmf DM vs t,\n"
              "  gen_hmm_likelihood T sl m pmf DM vs t = np_hmm_likelihood T sl m pmf DM vs t.\n"
              "Proof. intros. reflexivity. Qed.\n"
              "Lemma gen_hmm_likelihood_eq : forall u data t, wf_graphb (u_graph u) = true ->\n"
              "  gen_hmm_likelihood (transition_matrix u) (u_states u) (u_maxt u) (get_pmf u) (diagnosis_matrix u data)\n"
              "                     (valid_t_stages u data) t = hmm_likelihood_factors u data t.\n"
              "Proof. intros u data t Hwf. rewrite gen_hmm_likelihood_np. apply np_hmm_likelihood_model; assumption. Qed.\n")


HEADER = ("(* GENERATED on every run by harness/translate3.py from the Python source of lymph; do not edit *)\n"
          "From LymphModel Require Import Base States Linalg Graph Transition Observation Dist Unilateral Numpy NumpyTransition\n"
          "  NumpyPipelines.\n"
          "Local Open Scope nat_scope.\nOpen Scope Qc_scope.\n\n")

_WHERE = "lymph/models/unilateral.py Unilateral."
PIECES = {
    "evolve": (translate_evolve, "gen_evolve_eq", _WHERE + "evolve"),
    "state_dist_evo": (translate_state_dist_evo, "gen_state_dist_evo_eq", _WHERE + "state_dist_evo"),
    "state_dist": (translate_state_dist, "gen_state_dist_eq", _WHERE + "state_dist"),
    "obs_dist": (translate_obs_dist, "gen_obs_dist_eq", _WHERE + "obs_dist"),
    "bn_likelihood": (translate_bn_likelihood, "gen_bn_likelihood_eq", _WHERE + "_bn_likelihood"),
    "hmm_likelihood": (translate_hmm_likelihood, "gen_hmm_likelihood_eq", _WHERE + "_hmm_likelihood"),
}


def generate(piece: str) -> str:
    fn, lemma, _ = PIECES[piece]
    return HEADER + fn() + f"Print Assumptions {lemma}.\n"


if __name__ == "__main__":
    import sys
    for p in (sys.argv[1:] or PIECES):
        print(generate(p))
