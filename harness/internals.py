"""Function-level diagnostics: the Impl definitions of the Coq model mirror lymph's helper functions one by one;
here those helpers are compared directly (utils.comp_transition_tensor, get_state_idx_matrix, tile_and_repeat,
row_wise_kron, np.kron, matrix.fast_trace, matrix.compute_encoding, utils.early_late_mapping).
By the false-alarm policy (DESIGN.md section 6) a difference here is recorded in the evidence as a diagnostic and does
not by itself raise a violation: a harmless internal rewrite must stay quiet; the API-level correspondence decides."""
from __future__ import annotations

import itertools

import numpy as np

from .core import Ctx, fracs, q, lst, nat, boolean, run_coq_cases, s, tup


def _close(a, e):
    a = np.asarray(a, dtype=float)
    e = np.asarray(e, dtype=float)
    return a.shape == e.shape and (a.size == 0 or bool(np.all(np.abs(a - e) <= 1e-9)))


def transition_diagnostics(ctx: Ctx):
    from lymph import utils
    cases, exprs = [], []
    vals = [0.0, 1.0, 0.25, 0.8125]
    for npar, nch, tum, gro in [(1, 2, True, False), (1, 3, True, False), (2, 2, False, False), (3, 3, False, False), (3, 3, False, True)]:
        for sp in vals:
            for mi in vals[:3]:
                cases.append(("comp_transition_tensor", (npar, nch, tum, gro, sp, mi)))
                exprs.append(f"map qoutm (comp_transition_tensor {nat(npar)} {nat(nch)} {boolean(tum)} {boolean(gro)} {q(sp)} {q(mi)})")
    for b in (2, 3):
        for n in (1, 2, 3):
            for k in range(n):
                cases.append(("get_state_idx_matrix", (k, n, b)))
                exprs.append(f"state_idx_col {nat(k)} {nat(n)} {nat(b)}")
    res = run_coq_cases(ctx.work / "diag-trans", exprs, "Base States Linalg Graph Transition", shard=200)
    ok = bad = 0
    examples = []
    for (fn, args), v in zip(cases, res):
        try:
            if fn == "comp_transition_tensor":
                good = _close(utils.comp_transition_tensor(*args), fracs(v))
            else:
                m = utils.get_state_idx_matrix(*args)
                good = m[:, 0].tolist() == v and bool((m == m[:, [0]]).all())
        except Exception as e:  # noqa: BLE001
            good = False
        ok += good
        bad += not good
        if not good and len(examples) < 3:
            examples.append({"function": fn, "args": list(args)})
    ctx.extra.setdefault("internal_diagnostics", {})["transition"] = {"compared": ok + bad, "different": bad, "examples": examples}


def observation_diagnostics(ctx: Ctx):
    from lymph import matrix, utils
    rng = ctx.rng
    cases, exprs = [], []
    for _ in range(12):
        r, c1, c2 = rng.randint(1, 3), rng.randint(1, 3), rng.randint(1, 3)
        A = [[rng.randint(0, 8) / 8 for _ in range(c1)] for _ in range(r)]
        B = [[rng.randint(0, 8) / 8 for _ in range(c2)] for _ in range(r)]
        def M(X):
            return lst(lst(q(v) for v in row) for row in X)
        cases.append(("row_wise_kron", (A, B)))
        exprs.append(f"qoutm (row_wise_kron {M(A)} {M(B)})")
        cases.append(("np.kron", (A, B)))
        exprs.append(f"qoutm (kron_mat {M(A)} {M(B)})")
        P = [[rng.randint(0, 8) / 8 for _ in range(c1)] for _ in range(r)]
        R = [[rng.randint(0, 8) / 8 for _ in range(r)] for _ in range(c1)]
        cases.append(("fast_trace", (P, R)))
        exprs.append(f"qouts (fast_trace {M(P)} {M(R)})")
    for b in (2, 3):
        for j in range(3):
            el = [True, False, True][:b]
            cases.append(("tile_and_repeat", (el, b, j, 3)))
            exprs.append(f"tile_and_repeat_row {lst(boolean(x) for x in el)} (Nat.pow {nat(b)} {nat(j)}) (Nat.pow {nat(b)} {nat(3 - j - 1)})")
    res = run_coq_cases(ctx.work / "diag-obs", exprs, "Base States Linalg Graph Transition Observation", shard=200)
    ok = bad = 0
    examples = []
    for (fn, args), v in zip(cases, res):
        try:
            if fn == "row_wise_kron":
                good = _close(utils.row_wise_kron(np.array(args[0]), np.array(args[1])), fracs(v))
            elif fn == "np.kron":
                good = _close(np.kron(np.array(args[0]), np.array(args[1])), fracs(v))
            elif fn == "fast_trace":
                good = _close(matrix.fast_trace(np.array(args[0]), np.array(args[1])), fracs(v))
            else:
                el, b, j, n = args
                got = utils.tile_and_repeat(np.array(el), tile=(1, b ** j), repeat=(1, b ** (n - j - 1)))[0].tolist()
                good = got == v
        except Exception:  # noqa: BLE001
            good = False
        ok += good
        bad += not good
        if not good and len(examples) < 3:
            examples.append({"function": fn})
    ctx.extra.setdefault("internal_diagnostics", {})["observation"] = {"compared": ok + bad, "different": bad, "examples": examples}


def params_diagnostics(ctx: Ctx):
    """utils.popfirst / popat / unflatten_and_split / flatten vs Params.v"""
    from lymph import utils
    rng = ctx.rng
    cases, exprs = [], []

    def P(name):   # python key -> Coq path
        return lst(s(x) for x in name.split("_")) if name else "[]"

    for _ in range(25):
        n = rng.randint(0, 4)
        seq = [rng.randint(0, 9) for _ in range(n)]
        idx = rng.randint(-6, 6)
        cases.append(("popat", (seq, idx)))
        exprs.append(f"popat {lst(nat(v) for v in seq)} ({idx})%Z")
        cases.append(("popfirst", (seq,)))
        exprs.append(f"popfirst {lst(nat(v) for v in seq)}")
    heads = ["ipsi", "contra", "ext", "TtoII", "late", "spread", "mixing"]
    for _ in range(25):
        keys = []
        for _k in range(rng.randint(0, 5)):
            k = "_".join(rng.choice(heads) for _ in range(rng.randint(1, 3)))
            if k not in keys:
                keys.append(k)
        mapping = {k: rng.randint(0, 9) for k in keys}
        expected = rng.sample(heads, rng.randint(0, 3))
        cases.append(("unflatten_and_split", (mapping, expected)))
        kw = lst(tup(P(k), f"(V (qc {v} 1))") for k, v in mapping.items())
        exprs.append(f"let r := unflatten_and_split {kw} {lst(s(e) for e in expected)} in "
                     f"(map (fun kv => (fst kv, map (fun x => (fst x, match snd x with V q => qout q | Bad => (0, 0) end)) (snd kv))) (fst r), "
                     f"map (fun x => (fst x, match snd x with V q => qout q | Bad => (0, 0) end)) (snd r))")
    res = run_coq_cases(ctx.work / "diag-params", exprs,
                        "Base States Linalg Graph Transition Observation Dist Unilateral Models Params", shard=200)
    ok = bad = 0
    examples = []

    def unopt(v):
        return None if v is None else (v[1] if isinstance(v, tuple) and v and v[0] == "Some" else v)

    for (fn, args), v in zip(cases, res):
        try:
            if fn == "popat":
                b, x, a = utils.popat(list(args[0]), args[1])
                mb, mx, ma = v
                good = (list(b), x, list(a)) == (list(mb), unopt(mx), list(ma))
            elif fn == "popfirst":
                x, rest = utils.popfirst(list(args[0]))
                mx, mrest = v
                good = (x, list(rest)) == (unopt(mx), list(mrest))
            else:
                split, glob = utils.unflatten_and_split(dict(args[0]), expected_keys=list(args[1]))
                msplit, mglob = v
                py_split = [(k, [(kk.split("_") if kk else [], vv) for kk, vv in d.items()]) for k, d in split.items()]
                py_glob = [(k.split("_"), vv) for k, vv in glob.items()]
                m_split = [(k, [(list(p), fracs(q_)) for p, q_ in d]) for k, d in msplit]
                m_glob = [(list(p), fracs(q_)) for p, q_ in mglob]
                good = py_split == [(k, [(p, float(q_)) for p, q_ in d]) for k, d in m_split] and \
                    py_glob == [(p, float(q_)) for p, q_ in m_glob]
        except Exception as e:  # noqa: BLE001
            good = False
        ok += good
        bad += not good
        if not good and len(examples) < 3:
            examples.append({"function": fn, "args": repr(args)[:200]})
    ctx.extra.setdefault("internal_diagnostics", {})["params_helpers"] = {"compared": ok + bad, "different": bad, "examples": examples}
