"""Source-to-Gallina translator, fifth part: the base of lymph's parameter plumbing (sequences, dicts, Edge methods).

On every run the CURRENT Python source is parsed with `ast`, translated statement by statement into Gallina
(`gen_<function>`), and a generated file PROVES the result equal to the hand-written model of `coq/theories/Params.v`
for ALL arguments.  As in `translate2.generate_transition` the proof has two steps: the generated term is checked by
CONVERSION (`reflexivity`) against `NumpyParams.np_<function>`, a hand-written statement-by-statement reading of the same
Python function, and `NumpyParams.v` proves `np_<function> = <model>` once and for all.

  utils.popfirst                  -> gen_popfirst             = Params.popfirst
  utils.unflatten_and_split       -> gen_unflatten_and_split  = Params.unflatten_and_split
  graph.Edge.get_params           -> gen_edge_get_params      : state unchanged, value = Params.edge_get_params
      (with get_spread_prob, get_micro_mod)                     (as_dict=True)
  graph.Edge.set_params           -> gen_edge_set_params      = Params.edge_set_params
      (with get_spread_prob, get_micro_mod, set_spread_prob, set_micro_mod)
  utils.set_params_for            -> gen_set_params_for       generic in the class of the objects; for the dict of a
                                                                graph's edges = Params.set_edges_for ... sel_all
                                                                (and = Params.graph_set_params)
  utils.flatten                   -> gen_flatten              a Fixpoint on a recursion bound `fuel`;
                                                                = Params.flatten on dicts nested one level deep, fuel >= 2
  utils.get_params_from (+ flatten)-> gen_get_params_from     generic; for the dict of a graph's edges (state unchanged)
                                                                = Params.edges_get_params, fuel >= 2

Fail-closed: every statement / expression form that is not listed below raises `Untranslatable`.

Python local `x` becomes the Gallina binder `x_` (no emitted global name ends in `_`, so a Python name can never capture
one); re-assignment is shadowing.

What the translator itself ASSUMES (trusted reading; the conventions are those of the header of Params.v)
 * sequences / `*args` are lists: `seq[K]` (K a literal >= 0) is `py_index seq K` and raises IndexError when it is `None`;
   `seq[K:]` is `py_slice_from seq K` and never raises; a tuple component that is "an element or None" is an `option`.
 * parameter NAMES are paths: a string literal key "a_b" is the path ["a"; "b"]; `key.partition(sep)` with `sep` the
   parameter whose default is "_" is `partition_key key` = (first component, remaining path); the middle result is unused.
 * dicts are insertion-ordered association lists with unique keys: `{}` is `[]`, `d[k] = v` is `kw_set k v d` (path keys)
   or `dict_set` (string keys), `k not in d` is `negb (dict_has k d)` / `negb (mem k names)` for `objects.keys()` or a list
   of names, `d.items()` is `d`, `d.copy()` is `d`, `dst.update(src)` is `kw_update src dst`,
   `d.get(k, {})` is `sub_kwargs k d`, `kwargs.get("name", default)` is `kw_get_or ["name"] kwargs default`.
 * THE ALIASING IDIOM of unflatten_and_split, four consecutive statements with `tmp` used nowhere else,
       tmp = D;  if K not in tmp: tmp[K] = {};  tmp = tmp[K];  tmp[R] = V
   is recognised as one unit and read as two updates of D itself (tmp is an alias of D, then of the dict stored under K):
       D := if negb (dict_has K D) then dict_set K [] D else D;   D := dict_set K (kw_set R V (sub_kwargs K D)) D
   NumpyParams.nested_set_alias proves this equal to the model's `dict_set K (kw_set R V (sub_kwargs K D)) D`.
 * an Edge object is the model record `edge`, threaded through the statements as `self_` (a method is a function
   edge -> ... -> edge * option R; `None` = ValueError was raised and the fields assigned so far stay assigned):
   `self._spread_prob` / `self._micro_mod` are the fields `e_spread` / `e_micro` (assignment = `with_spread` / `with_micro`),
   `self.is_growth` is `is_growth self` and `self.is_tumor_spread` as well as `isinstance(self.parent, Tumor)` are
   `is_tumor_spread self` (the translator checks that the two properties are still `self.parent == self.child` and
   `isinstance(self.parent, Tumor)`), and
   SAME ARITY: `self.parent.is_trinary` (only evaluated for an LNL parent) and `self.child.is_trinary` are both the graph's
   `tri` and `self.parent.is_binary` is `negb tri`: all LNLs of a graph.Representation share `allowed_states` of length 2 or 3.
   With it `not isinstance(self.parent, Tumor) and self.parent.is_trinary and not self.is_growth` = `has_micro tri e`
   (NumpyParams.has_micro_code), and after the early return for growth arcs `self.child.is_trinary and not
   self.is_tumor_spread` too (has_micro_code_get).
 * `hasattr(self, "_x")` is an opaque boolean `hasattr "_x"`; the lemmas need `hasattr "_spread_prob" = true` and
   `has_micro tri e = true -> hasattr "_micro_mod" = true`, which is what Edge.__init__ establishes.
 * user values (`val`) are never None: `x is None` on a `val` is `val_is_none x` = false; it is a real test (a `match`)
   only on the first component of `popfirst`.  A number read from the object becomes a user value by `V`.
 * `if not LO <= x <= HI: raise ...` on a user value x is `match check_range LO HI x with None => raise | Some x => ...`
   (NaN / inf fail the chained comparison; afterwards x is a number); `raise ValueError(...)` is `None`;
   `warnings.warn(...)` (and an `if` with a side-effect-free test that only warns) is dropped; `as_dict` is True,
   `as_flat` is the argument of the lemma; `popfirst` imported from lymph.utils is Params.popfirst (piece `popfirst`) and
   `unflatten_and_split` called inside utils.set_params_for is Params.unflatten_and_split (piece `unflatten_and_split`).
 * generic functions over `objects: dict[str, obj]`: `objects` is an association list name -> object that is threaded through
   the statements like `self_`; `objects.keys()` is `map fst objects`;
       for KEY, OBJ in objects.items(): BODY
   where BODY only calls methods of OBJ, rebinds ONE variable defined before the loop and may raise, is
   `py_for_items (fun key obj carried => BODY) objects carried` (NumpyParams.py_for_items: objects are replaced in place, an
   exception stops the loop and leaves the remaining objects untouched).  `obj.set_params(*args, **obj_kwargs)` and
   `obj.get_params(as_flat=as_flat)` are calls of an ABSTRACT method (a function parameter `set_params_` / `get_params_` of
   type obj -> ... -> obj * option result); the lemmas instantiate it with the model of the Edge method, which the pieces
   `edge_set_params` / `edge_get_params` tie to the source.  `D.update(SRC)` is accepted only for a D bound by `X.copy()`.
 * utils.flatten: keys are paths, so `f"{parent_key}{sep}{k}"` is `parent_key ++ k` and `if parent_key` is `path_nonempty`;
   `isinstance(v, dict)` is the case distinction Node / Leaf of a `ptree` (in the `else` branch v is a number);
   `items.extend(D.items())` / `items.append((k, v))` append to a list of items, `dict(items)` is `dict_of`.  Python's
   recursion on the nesting becomes a Fixpoint on an extra argument `fuel` (every call consumes one unit; `flatten(params)`
   in get_params_from passes the `fuel` parameter of the generated function, `parent_key=""` is the empty path); the lemmas
   hold for every fuel >= 2 and dicts nested one level deep (`depth1`: what get_params_from builds from flat dicts).
"""
from __future__ import annotations

import ast

from .translate import Untranslatable, _func, _src, _strip_doc
from .translate2 import _attr_chain

# types of Python values
VAL, OPTVAL, QC, ARGS, KWARGS, SPLIT, PDICT, BOOL, UNIT, STR, PATH, NAMES, EMPTY = (
    "val", "option val", "Qc", "args", "kwargs", "list (string * kwargs)", "pdict", "bool", "unit", "string", "path",
    "list string", "{}")


def g(name: str) -> str:
    """Gallina binder of a Python local"""
    return name + "_"


def _path(key) -> str:
    if not (isinstance(key, ast.Constant) and isinstance(key.value, str) and key.value):
        raise Untranslatable("dict key is not a non-empty string literal")
    return "[" + "; ".join(f'"{c}"' for c in key.value.split("_")) + "]"


def _qlit(e):
    if isinstance(e, ast.Constant) and isinstance(e.value, (int, float)) and not isinstance(e.value, bool) \
            and e.value == int(e.value) and e.value >= 0:
        n = int(e.value)
        return f"{n}%Qc" if n in (0, 1) else f"(Q2Qc (inject_Z {n}%Z))"
    return None


def _is_none(e) -> bool:
    return isinstance(e, ast.Constant) and e.value is None


def _is_none_test(t):
    """`NAME is None` -> NAME"""
    if (isinstance(t, ast.Compare) and len(t.ops) == 1 and isinstance(t.ops[0], ast.Is) and isinstance(t.left, ast.Name)
            and _is_none(t.comparators[0])):
        return t.left.id
    return None


def _reads(stmts) -> set:
    return {n.id for s in stmts for n in ast.walk(s) if isinstance(n, ast.Name) and isinstance(n.ctx, ast.Load)}


def _assigned(stmts) -> list:
    out = []
    for s in stmts:
        for n in ast.walk(s):
            tg = []
            if isinstance(n, ast.Assign):
                tg = n.targets
            elif isinstance(n, (ast.AugAssign, ast.AnnAssign)):
                tg = [n.target]
            for t in tg:
                for x in ([t] if not isinstance(t, ast.Tuple) else t.elts):
                    while isinstance(x, ast.Subscript):
                        x = x.value
                    if isinstance(x, ast.Name) and x.id not in out:
                        out.append(x.id)
    return out


def _params(fn, want, defaults=None, vararg=None, kwarg=None):
    a = fn.args
    got = [x.arg for x in a.args]
    if got != want or a.posonlyargs or a.kwonlyargs:
        raise Untranslatable(f"{fn.name}: signature {got}")
    if (a.vararg.arg if a.vararg else None) != vararg or (a.kwarg.arg if a.kwarg else None) != kwarg:
        raise Untranslatable(f"{fn.name}: *args / **kwargs")
    have = [ast.literal_eval(d) if isinstance(d, ast.Constant) else ast.dump(d) for d in a.defaults]
    if have != (defaults or []):
        raise Untranslatable(f"{fn.name}: defaults {have}")


# ----------------------------------------------------------------------------------------------------------------------
# utils.popfirst
# ----------------------------------------------------------------------------------------------------------------------
def translate_popfirst() -> str:
    """try: return T1, ..., Tn  except IndexError: return U1, ..., Un
       Ti, Ui ::= seq[K] (may raise IndexError) | seq[K:] | seq | None"""
    fn = _func(ast.parse(_src("lymph/utils.py")), "popfirst")
    _params(fn, ["seq"])
    st = _strip_doc(fn.body)
    ok = (len(st) == 1 and isinstance(st[0], ast.Try) and len(st[0].body) == 1 and len(st[0].handlers) == 1
          and not st[0].orelse and not st[0].finalbody and isinstance(st[0].handlers[0].type, ast.Name)
          and st[0].handlers[0].type.id == "IndexError" and len(st[0].handlers[0].body) == 1)
    if not ok:
        raise Untranslatable("popfirst is not `try: <one statement> except IndexError: <one statement>`")

    def ret(s, may_raise):
        """-> (list of (nat index text, binder) that are evaluated in order, tuple components)"""
        if not (isinstance(s, ast.Return) and isinstance(s.value, ast.Tuple) and len(s.value.elts) == 2):
            raise Untranslatable("return of a pair expected")
        idx, comps = [], []
        for k, e in enumerate(s.value.elts):
            opt = k == 0                  # first component: "an element or None"
            if isinstance(e, ast.Name) and e.id == "seq" and not opt:
                comps.append(g("seq"))
            elif _is_none(e) and opt:
                comps.append("None")
            elif (isinstance(e, ast.Subscript) and isinstance(e.value, ast.Name) and e.value.id == "seq"
                  and isinstance(e.slice, ast.Constant) and isinstance(e.slice.value, int)
                  and not isinstance(e.slice.value, bool) and e.slice.value >= 0 and opt):
                if not may_raise:
                    raise Untranslatable("indexing inside the handler")
                idx.append((f"{e.slice.value}", f"x{k}"))
                comps.append(f"Some x{k}")
            elif (isinstance(e, ast.Subscript) and isinstance(e.value, ast.Name) and e.value.id == "seq"
                  and isinstance(e.slice, ast.Slice) and e.slice.upper is None and e.slice.step is None
                  and isinstance(e.slice.lower, ast.Constant) and isinstance(e.slice.lower.value, int)
                  and not isinstance(e.slice.lower.value, bool) and e.slice.lower.value >= 0 and not opt):
                comps.append(f"py_slice_from {g('seq')} {e.slice.lower.value}")
            else:
                raise Untranslatable(f"tuple component {ast.dump(e)[:120]}")
        return idx, "(" + ", ".join(comps) + ")"

    idx, normal = ret(st[0].body[0], True)
    _, handler = ret(st[0].handlers[0].body[0], False)
    body = normal
    for k, x in reversed(idx):
        body = f"match py_index {g('seq')} {k} with\n  | Some {x} => {body}\n  | None => {handler}\n  end"
    return ("Definition gen_popfirst {A} (seq_ : list A) : option A * list A :=\n  " + body + ".\n"
            "Lemma gen_popfirst_np : forall (A : Type) (l : list A), gen_popfirst l = np_popfirst l.\n"
            "Proof. intros. reflexivity. Qed.\n"
            "Lemma gen_popfirst_eq : forall (A : Type) (l : list A), gen_popfirst l = popfirst l.\n"
            "Proof. intros A l. rewrite gen_popfirst_np. apply np_popfirst_eq. Qed.\n")


# ----------------------------------------------------------------------------------------------------------------------
# pure dict code: utils.unflatten_and_split
# ----------------------------------------------------------------------------------------------------------------------
class Dicts:
    """statements (inside a loop body; `tail` = the accumulator tuple)
         A, _, B = KEY.partition(sep)  |  D[K] = V  |  if T: ...; continue  |  the aliasing idiom (module docstring)
       tests   X not in NAMES | X not in D"""

    def __init__(self, env: dict, all_stmts):
        self.env = dict(env)              # python name -> type
        self.all = all_stmts              # the whole function body (to check that an alias is used nowhere else)

    def name(self, e, *types) -> str:
        if not (isinstance(e, ast.Name) and e.id in self.env):
            raise Untranslatable(f"variable expected: {ast.dump(e)[:120]}")
        if types and self.env[e.id] not in types:
            raise Untranslatable(f"{e.id} : {self.env[e.id]}, expected one of {types}")
        return g(e.id)

    def test(self, t) -> str:
        if isinstance(t, ast.Compare) and len(t.ops) == 1 and isinstance(t.ops[0], ast.NotIn):
            x, y = t.left, t.comparators[0]
            if isinstance(y, ast.Name) and self.env.get(y.id) == NAMES:
                return f"negb (mem {self.name(x, STR)} {g(y.id)})"
            if isinstance(y, ast.Name) and self.env.get(y.id) in (SPLIT, EMPTY):
                self.env[y.id] = SPLIT
                return f"negb (dict_has {self.name(x, STR)} {g(y.id)})"
        raise Untranslatable(f"test {ast.dump(t)[:160]}")

    def alias_unit(self, stmts):
        """tmp = D; if K not in tmp: tmp[K] = {}; tmp = tmp[K]; tmp[R] = V  ->  (D, K, R, V) or None"""
        if len(stmts) < 4:
            return None
        a, b, c, d = stmts[:4]
        if not (isinstance(a, ast.Assign) and len(a.targets) == 1 and isinstance(a.targets[0], ast.Name)
                and isinstance(a.value, ast.Name) and self.env.get(a.value.id) in (SPLIT, EMPTY)):
            return None
        tmp, D = a.targets[0].id, a.value.id
        if tmp in self.env:
            raise Untranslatable(f"alias {tmp} is also a variable")
        uses = sum(1 for s in self.all for n in ast.walk(s) if isinstance(n, ast.Name) and n.id == tmp)
        inside = sum(1 for s in stmts[:4] for n in ast.walk(s) if isinstance(n, ast.Name) and n.id == tmp)
        if uses != inside:
            raise Untranslatable(f"alias {tmp} is used outside the idiom")

        def sub_tmp(e):
            return (isinstance(e, ast.Subscript) and isinstance(e.value, ast.Name) and e.value.id == tmp
                    and isinstance(e.slice, ast.Name))
        ok = (isinstance(b, ast.If) and not b.orelse and len(b.body) == 1 and isinstance(b.test, ast.Compare)
              and len(b.test.ops) == 1 and isinstance(b.test.ops[0], ast.NotIn) and isinstance(b.test.left, ast.Name)
              and isinstance(b.test.comparators[0], ast.Name) and b.test.comparators[0].id == tmp
              and isinstance(b.body[0], ast.Assign) and len(b.body[0].targets) == 1 and sub_tmp(b.body[0].targets[0])
              and isinstance(b.body[0].value, ast.Dict) and not b.body[0].value.keys)
        if not ok:
            raise Untranslatable(f"after `{tmp} = {D}`: expected `if K not in {tmp}: {tmp}[K] = {{}}`")
        K = b.test.left.id
        if b.body[0].targets[0].slice.id != K:
            raise Untranslatable("the key tested and the key initialised differ")
        ok = (isinstance(c, ast.Assign) and len(c.targets) == 1 and isinstance(c.targets[0], ast.Name)
              and c.targets[0].id == tmp and sub_tmp(c.value) and c.value.slice.id == K)
        if not ok:
            raise Untranslatable(f"expected `{tmp} = {tmp}[{K}]`")
        ok = (isinstance(d, ast.Assign) and len(d.targets) == 1 and sub_tmp(d.targets[0]) and isinstance(d.value, ast.Name))
        if not ok:
            raise Untranslatable(f"expected `{tmp}[R] = V`")
        return D, K, d.targets[0].slice.id, d.value.id

    def block(self, stmts, tail: str) -> str:
        if not stmts:
            return tail
        s, rest = stmts[0], stmts[1:]
        al = self.alias_unit(stmts)
        if al is not None:
            D, K, R, V_ = al
            for n, ty in ((K, STR), (R, PATH), (V_, VAL)):
                if self.env.get(n) != ty:
                    raise Untranslatable(f"aliasing idiom: {n} is not a {ty}")
            self.env[D] = SPLIT
            d, k = g(D), g(K)
            return (f"let {d} := if negb (dict_has {k} {d}) then dict_set {k} [] {d} else {d} in\n"
                    f"        let {d} := dict_set {k} (kw_set {g(R)} {g(V_)} (sub_kwargs {k} {d})) {d} in\n"
                    f"        {self.block(stmts[4:], tail)}")
        # A, _, B = KEY.partition(sep)
        if (isinstance(s, ast.Assign) and len(s.targets) == 1 and isinstance(s.targets[0], ast.Tuple)
                and len(s.targets[0].elts) == 3 and all(isinstance(x, ast.Name) for x in s.targets[0].elts)
                and isinstance(s.value, ast.Call) and isinstance(s.value.func, ast.Attribute)
                and s.value.func.attr == "partition" and len(s.value.args) == 1 and not s.value.keywords
                and isinstance(s.value.args[0], ast.Name) and self.env.get(s.value.args[0].id) == "sep"):
            a, mid, b = (x.id for x in s.targets[0].elts)
            if mid in _reads(self.all) or len({a, mid, b}) != 3:
                raise Untranslatable("the separator returned by partition is used")
            key = self.name(s.value.func.value, PATH)
            self.env[a], self.env[b] = STR, PATH
            return f"let '({g(a)}, {g(b)}) := partition_key {key} in\n        {self.block(rest, tail)}"
        # D[K] = V on a flat dict
        if (isinstance(s, ast.Assign) and len(s.targets) == 1 and isinstance(s.targets[0], ast.Subscript)
                and isinstance(s.targets[0].value, ast.Name) and self.env.get(s.targets[0].value.id) in (KWARGS, EMPTY)):
            D = s.targets[0].value.id
            k, v = self.name(s.targets[0].slice, PATH), self.name(s.value, VAL)
            self.env[D] = KWARGS
            return f"let {g(D)} := kw_set {k} {v} {g(D)} in\n          {self.block(rest, tail)}"
        # if T: ...; continue
        if isinstance(s, ast.If) and not s.orelse and s.body and isinstance(s.body[-1], ast.Continue):
            t = self.test(s.test)
            saved = dict(self.env)
            then = self.block(s.body[:-1], tail)
            types_then = self.env
            self.env = saved
            els = self.block(rest, tail)
            for n, ty in types_then.items():      # a dict typed in one branch only keeps that type
                if self.env.get(n) == EMPTY:
                    self.env[n] = ty
            return f"if {t} then\n          {then}\n        else\n        {els}"
        raise Untranslatable(f"statement {type(s).__name__}: {ast.dump(s)[:160]}")


def translate_unflatten_and_split() -> str:
    fn = _func(ast.parse(_src("lymph/utils.py")), "unflatten_and_split")
    _params(fn, ["mapping", "expected_keys", "sep"], ["_"])
    st = _strip_doc(fn.body)
    if len(st) != 3:
        raise Untranslatable(f"{len(st)} statements")
    init, loop, ret = st
    ok = (isinstance(init, ast.Assign) and len(init.targets) == 1 and isinstance(init.targets[0], ast.Tuple)
          and isinstance(init.value, ast.Tuple) and len(init.targets[0].elts) == len(init.value.elts) == 2
          and all(isinstance(x, ast.Name) for x in init.targets[0].elts)
          and all(isinstance(x, ast.Dict) and not x.keys for x in init.value.elts))
    if not ok:
        raise Untranslatable("first statement is not `A, B = {}, {}`")
    accs = [x.id for x in init.targets[0].elts]
    ok = (isinstance(loop, ast.For) and not loop.orelse and isinstance(loop.target, ast.Tuple) and len(loop.target.elts) == 2
          and all(isinstance(x, ast.Name) for x in loop.target.elts) and isinstance(loop.iter, ast.Call)
          and not loop.iter.args and not loop.iter.keywords and _attr_chain(loop.iter.func) == ["mapping", "items"])
    if not ok:
        raise Untranslatable("loop is not `for K, V in mapping.items()`")
    k, v = (x.id for x in loop.target.elts)
    d = Dicts({"mapping": KWARGS, "expected_keys": NAMES, "sep": "sep", accs[0]: EMPTY, accs[1]: EMPTY, k: PATH, v: VAL}, st)
    tup = f"({g(accs[0])}, {g(accs[1])})"
    body = d.block(list(loop.body), tup)
    tys = [d.env[a] for a in accs]
    if tys != [SPLIT, KWARGS]:
        raise Untranslatable(f"accumulator types {tys}")
    if not (isinstance(ret, ast.Return) and isinstance(ret.value, ast.Tuple)
            and [getattr(x, "id", None) for x in ret.value.elts] == accs):
        raise Untranslatable("return")
    ty = f"{tys[0]} * {tys[1]}"
    return (f"Definition gen_unflatten_and_split (mapping_ : kwargs) (expected_keys_ : list string) : {ty} :=\n"
            f"  let '{tup} := (([] : {tys[0]}), ([] : {tys[1]})) in\n"
            f"  let '{tup} :=\n"
            f"    fold_left (fun '({tup} : {ty}) '(({g(k)}, {g(v)}) : path * val) =>\n        {body})\n"
            f"      mapping_ {tup} in\n  {tup}.\n"
            "Lemma gen_unflatten_and_split_np : forall kw expected,\n"
            "  gen_unflatten_and_split kw expected = np_unflatten_and_split kw expected.\n"
            "Proof. intros. reflexivity. Qed.\n"
            "Lemma gen_unflatten_and_split_eq : forall kw expected,\n"
            "  gen_unflatten_and_split kw expected = unflatten_and_split kw expected.\n"
            "Proof. intros kw expected. rewrite gen_unflatten_and_split_np. apply np_unflatten_and_split_eq. Qed.\n")


# ----------------------------------------------------------------------------------------------------------------------
# methods of graph.Edge: the object is threaded through the statements
# ----------------------------------------------------------------------------------------------------------------------
class NotPure(Exception):
    pass


ATTRS = {"_spread_prob": ("e_spread", "with_spread"), "_micro_mod": ("e_micro", "with_micro")}
# methods of Edge a translated method may call: name -> (parameter types, return type)
METHODS = {"get_spread_prob": ([], QC), "get_micro_mod": ([], QC), "set_spread_prob": ([VAL], UNIT), "set_micro_mod": ([VAL], UNIT)}


class Meth:
    """statements  return [E] | raise ValueError(...) | NAME = E | A, B = popfirst(ARGS) | NAME = {"k": E, ...}
                   | NAME["k"] = E | self._attr = E | self.METHOD(E, ...) | if not LO <= X <= HI: raise ...
                   | if T: BLOCK-ending-in-return/raise | if T: BLOCK [else: BLOCK] falling through (no return inside)
                   | warnings.warn(...) and `if T: warnings.warn(...)` (dropped)
       pure expr   names, 0.0 / 1.0, self._attr, self.is_growth, self.is_tumor_spread, self.parent.is_trinary,
                   self.child.is_trinary, self.parent.is_binary, isinstance(self.parent, Tumor), hasattr(self, "_attr"),
                   KWARGS.get("k", E), not / and / or, X is None (X a user value), `A if as_dict else B` (as_dict = True)
       effectful   self.METHOD(...) | A if NAME is None else B (NAME the first component of popfirst) | pure"""

    def __init__(self, env: dict, ret_ty: str, state: str = "self", const: dict | None = None, obj: str | None = None,
                 objects: str | None = None):
        self.env = dict(env)              # python name -> type
        self.ret_ty = ret_ty
        self.state = g(state)             # the Gallina binder of the object that is threaded through the statements
        self.raised = f"({self.state}, None)"
        self.const = dict(const or {})    # parameters with a fixed value: python name -> Gallina boolean
        self.obj = obj                    # (loop body) python name of the object whose abstract methods may be called
        self.objects = objects            # (generic functions) python name of the dict of objects = the threaded state
        self.const_funcs = set()          # module-level functions of lymph.utils read as the model's function of that name
        self.owned = set()                # local dicts that are fresh copies (only those may be updated in place)
        self.n = 0

    def fresh(self) -> str:
        self.n += 1
        return f"x{self.n}"

    # ---- expressions -----------------------------------------------------------------------------------------------
    def pure(self, e):
        """-> (text, type); raises NotPure when the expression calls a method of the object"""
        q = _qlit(e)
        if q is not None:
            return (q, QC)
        if isinstance(e, ast.Name) and e.id in self.const:
            return (self.const[e.id], BOOL)
        if isinstance(e, ast.Name) and e.id in self.env:
            return (g(e.id), self.env[e.id])
        if isinstance(e, ast.Call) and isinstance(e.func, ast.Attribute) and isinstance(e.func.value, ast.Name) and not e.keywords:
            base, attr = e.func.value.id, e.func.attr
            if attr == "copy" and not e.args and self.env.get(base) == KWARGS:
                return (g(base), KWARGS)
            if (attr == "get" and len(e.args) == 2 and self.env.get(base) == SPLIT and isinstance(e.args[1], ast.Dict)
                    and not e.args[1].keys and isinstance(e.args[0], ast.Name) and self.env.get(e.args[0].id) == STR):
                return (f"(sub_kwargs {g(e.args[0].id)} {g(base)})", KWARGS)
            if attr == "keys" and not e.args and base == self.objects:
                return (f"(map fst {self.state})", NAMES)
            if self.obj is not None and base == self.obj:
                raise NotPure
        if (isinstance(e, ast.Call) and isinstance(e.func, ast.Name) and e.func.id == "flatten" and len(e.args) == 1
                and not e.keywords and "flatten" in self.const_funcs):
            t, ty = self.pure(e.args[0])
            if ty != PDICT:
                raise Untranslatable(f"flatten of a {ty}")
            return (f"(gen_flatten fuel {t} [])", PDICT)    # parent_key="" is the empty path, sep its default
        if self.obj is not None and isinstance(e, ast.Call) and (_attr_chain(e.func) or [None])[0] == self.obj:
            raise NotPure
        ch = _attr_chain(e)
        if ch is not None and ch[0] == "self" and self.state == "self_":
            if len(ch) == 2 and ch[1] in ATTRS:
                return (f"(e_{'spread' if ch[1] == '_spread_prob' else 'micro'} self_)", QC)
            if ch[1:] == ["is_growth"]:
                return ("(is_growth self_)", BOOL)
            if ch[1:] == ["is_tumor_spread"]:
                return ("(is_tumor_spread self_)", BOOL)
            if ch[1:] in (["parent", "is_trinary"], ["child", "is_trinary"]):
                return ("tri", BOOL)
            if ch[1:] == ["parent", "is_binary"]:
                return ("(negb tri)", BOOL)
        if isinstance(e, ast.Call) and isinstance(e.func, ast.Name) and not e.keywords:
            if (e.func.id == "isinstance" and len(e.args) == 2 and _attr_chain(e.args[0]) == ["self", "parent"]
                    and isinstance(e.args[1], ast.Name) and e.args[1].id == "Tumor"):
                return ("(is_tumor_spread self_)", BOOL)
            if (e.func.id == "hasattr" and len(e.args) == 2 and isinstance(e.args[0], ast.Name) and e.args[0].id == "self"
                    and isinstance(e.args[1], ast.Constant) and e.args[1].value in ATTRS):
                return (f'(hasattr "{e.args[1].value}")', BOOL)
        if (isinstance(e, ast.Call) and isinstance(e.func, ast.Attribute) and e.func.attr == "get" and not e.keywords
                and isinstance(e.func.value, ast.Name) and self.env.get(e.func.value.id) == KWARGS and len(e.args) == 2):
            d = self.pure(e.args[1])
            if d[1] != VAL:
                raise Untranslatable(f"default of kwargs.get is a {d[1]}, not a user value")
            return (f"(kw_get_or {_path(e.args[0])} {g(e.func.value.id)} {d[0]})", VAL)
        if isinstance(e, ast.Call) and _attr_chain(e.func) is not None and _attr_chain(e.func)[0] == "self":
            raise NotPure
        if isinstance(e, ast.UnaryOp) and isinstance(e.op, ast.Not):
            return (f"(negb {self.boolean(e.operand)})", BOOL)
        if isinstance(e, ast.BoolOp):
            op = " && " if isinstance(e.op, ast.And) else " || "
            return ("(" + op.join(self.boolean(x) for x in e.values) + ")", BOOL)
        nm = _is_none_test(e)
        if nm is not None and self.env.get(nm) == VAL:
            return (f"(val_is_none {g(nm)})", BOOL)
        if isinstance(e, ast.IfExp):
            if isinstance(e.test, ast.Name) and self.const.get(e.test.id) == "true":
                return self.pure(e.body)
            if _is_none_test(e.test) is not None:
                raise NotPure
        raise Untranslatable(f"expression {ast.dump(e)[:200]}")

    def boolean(self, e) -> str:
        t, ty = self.pure(e)
        if ty != BOOL:
            raise Untranslatable(f"boolean expected, got {ty}")
        return t

    def conv(self, term: str, have: str, want: str) -> str:
        """coercion of the value of an effectful term"""
        if have == want:
            return term
        if (have, want) == (QC, VAL):
            return f"match {term} with\n  | ({self.state}, None) => {self.raised}\n  | ({self.state}, Some x) => ({self.state}, Some (V x))\n  end"
        raise Untranslatable(f"cannot use a {have} as {want}")

    def eff(self, e):
        """-> (term of type edge * option T, T)"""
        if isinstance(e, ast.Call) and _attr_chain(e.func) is not None and _attr_chain(e.func)[0] == "self":
            ch = _attr_chain(e.func)
            if len(ch) != 2 or ch[1] not in METHODS or e.keywords:
                raise Untranslatable(f"call of {'.'.join(ch)}")
            ptys, rty = METHODS[ch[1]]
            if len(e.args) != len(ptys):
                raise Untranslatable(f"{ch[1]}: {len(e.args)} arguments")
            args = []
            for a, ty in zip(e.args, ptys):
                t, have = self.pure(a)            # NotPure here = nested effect: not accepted
                if have != ty:
                    raise Untranslatable(f"{ch[1]}: argument is a {have}, expected {ty}")
                args.append(t)
            return (f"gen_{ch[1]} tri hasattr self_" + "".join(" " + a for a in args), rty)
        if self.obj is not None and isinstance(e, ast.Call) and _attr_chain(e.func) == [self.obj, "set_params"]:
            ok = (len(e.args) == 1 and isinstance(e.args[0], ast.Starred) and isinstance(e.args[0].value, ast.Name)
                  and self.env.get(e.args[0].value.id) == ARGS and len(e.keywords) == 1 and e.keywords[0].arg is None
                  and isinstance(e.keywords[0].value, ast.Name) and self.env.get(e.keywords[0].value.id) == KWARGS)
            if not ok:
                raise Untranslatable("expected obj.set_params(*ARGS, **KWARGS)")
            return (f"set_params_ {self.state} {g(e.args[0].value.id)} {g(e.keywords[0].value.id)}", ARGS)
        if self.obj is not None and isinstance(e, ast.Call) and _attr_chain(e.func) == [self.obj, "get_params"]:
            ok = (not e.args and len(e.keywords) == 1 and e.keywords[0].arg == "as_flat"
                  and isinstance(e.keywords[0].value, ast.Name) and self.env.get(e.keywords[0].value.id) == BOOL)
            if not ok:
                raise Untranslatable("expected obj.get_params(as_flat=FLAG)")
            return (f"get_params_ {self.state} {g(e.keywords[0].value.id)}", PDICT)
        if isinstance(e, ast.IfExp) and _is_none_test(e.test) is not None:
            nm = _is_none_test(e.test)
            if self.env.get(nm) != OPTVAL:
                raise Untranslatable(f"`{nm} is None` in a conditional expression: {nm} : {self.env.get(nm)}")
            a, ta = self.eff(e.body)
            saved = dict(self.env)
            self.env[nm] = VAL
            b, tb = self.eff(e.orelse)
            self.env = saved
            ty = VAL if VAL in (ta, tb) else ta
            return (f"match {g(nm)} with\n  | None => {self.conv(a, ta, ty)}\n  | Some {g(nm)} => {self.conv(b, tb, ty)}\n  end", ty)
        t, ty = self.pure(e)
        return (f"({self.state}, Some {t})", ty)

    def bind(self, e, name: str, cont) -> str:
        """evaluate e, bind its value to the Gallina name `name`, continue with cont(type)"""
        try:
            t, ty = self.pure(e)
            return f"let {name} := {t} in\n  {cont(ty)}"
        except NotPure:
            t, ty = self.eff(e)
            return f"match {t} with\n  | ({self.state}, None) => {self.raised}\n  | ({self.state}, Some {name}) =>\n  {cont(ty)}\n  end"

    # ---- statements ------------------------------------------------------------------------------------------------
    @staticmethod
    def is_warn(s) -> bool:
        return isinstance(s, ast.Expr) and isinstance(s.value, ast.Call) and _attr_chain(s.value.func) == ["warnings", "warn"]

    @staticmethod
    def range_check(s):
        """if not LO <= X <= HI: raise ...  ->  (lo, X, hi)"""
        if not (isinstance(s, ast.If) and not s.orelse and len(s.body) == 1 and isinstance(s.body[0], ast.Raise)
                and isinstance(s.test, ast.UnaryOp) and isinstance(s.test.op, ast.Not) and isinstance(s.test.operand, ast.Compare)):
            return None
        c = s.test.operand
        if not (len(c.ops) == 2 and all(isinstance(o, ast.LtE) for o in c.ops) and isinstance(c.comparators[0], ast.Name)):
            return None
        lo, hi = _qlit(c.left), _qlit(c.comparators[1])
        if lo is None or hi is None:
            return None
        return lo, c.comparators[0].id, hi

    @staticmethod
    def check_raise(s):
        ok = (isinstance(s.exc, ast.Call) and isinstance(s.exc.func, ast.Name) and s.exc.func.id == "ValueError" and s.cause is None)
        if not ok:
            raise Untranslatable("only `raise ValueError(...)`")

    def block(self, stmts, fall) -> str:
        """`fall`: the term when the block falls through (None = not allowed)"""
        if not stmts:
            if fall is None:
                raise Untranslatable("block falls through")
            return fall
        s, rest = stmts[0], stmts[1:]
        if self.is_warn(s):
            return self.block(rest, fall)
        if isinstance(s, ast.If) and not s.orelse and all(self.is_warn(x) for x in s.body):
            self.boolean(s.test)              # must be a translatable test without side effects
            return self.block(rest, fall)
        if isinstance(s, ast.Return):
            if rest:
                raise Untranslatable("code after return")
            if s.value is None:
                t, ty = f"({self.state}, Some tt)", UNIT
            else:
                t, ty = self.eff(s.value)
            if ty != self.ret_ty:
                raise Untranslatable(f"returns a {ty}, expected {self.ret_ty}")
            return t
        if isinstance(s, ast.Raise):
            if rest:
                raise Untranslatable("code after raise")
            self.check_raise(s)
            return self.raised
        rc = self.range_check(s)
        if rc is not None:
            lo, x, hi = rc
            if self.env.get(x) != VAL:
                raise Untranslatable(f"range check of {x} : {self.env.get(x)}")
            self.check_raise(s.body[0])
            self.env[x] = QC
            return (f"match check_range {lo} {hi} {g(x)} with\n  | None => {self.raised}\n  | Some {g(x)} =>\n  "
                    f"{self.block(rest, fall)}\n  end")
        if isinstance(s, ast.If):
            t = self.boolean(s.test)
            if not s.orelse and isinstance(s.body[-1], (ast.Return, ast.Raise)):
                saved = dict(self.env)
                then = self.block(s.body, None)
                self.env = saved
                return f"if {t} then\n  {then}\n  else\n  {self.block(rest, fall)}"
            if any(isinstance(n, ast.Return) for x in s.body + s.orelse for n in ast.walk(x)):
                raise Untranslatable("return inside an `if` that falls through")
            live = [n for n in _assigned(s.body + s.orelse) if n in _reads(rest)]
            for n in live:
                if n not in self.env:
                    raise Untranslatable(f"{n} is assigned in a branch only and used afterwards")
            val = "tt" if not live else g(live[0]) if len(live) == 1 else "(" + ", ".join(g(n) for n in live) + ")"
            pat = "_" if not live else val
            before = dict(self.env)
            a = self.block(s.body, f"({self.state}, Some {val})")
            after_a = self.env
            self.env = dict(before)
            b = self.block(s.orelse, f"({self.state}, Some {val})")
            for n in live:
                if not (after_a[n] == self.env[n] == before[n]):
                    raise Untranslatable(f"the type of {n} changes in a branch")
            self.env = before
            return (f"match (if {t} then\n  {a}\n  else\n  {b}) with\n  | ({self.state}, None) => {self.raised}\n  | ({self.state}, Some {pat}) =>\n  "
                    f"{self.block(rest, fall)}\n  end")
        # D.update(SRC) on a local flat dict
        if (isinstance(s, ast.Expr) and isinstance(s.value, ast.Call) and isinstance(s.value.func, ast.Attribute)
                and s.value.func.attr == "update" and isinstance(s.value.func.value, ast.Name)
                and self.env.get(s.value.func.value.id) == KWARGS and len(s.value.args) == 1 and not s.value.keywords):
            if s.value.func.value.id not in self.owned:
                raise Untranslatable(f"{s.value.func.value.id}.update(...): the dict may be shared (it is not a fresh copy)")
            d = g(s.value.func.value.id)
            t, ty = self.pure(s.value.args[0])
            if ty != KWARGS:
                raise Untranslatable(f"update with a {ty}")
            return f"let {d} := kw_update {t} {d} in\n  {self.block(rest, fall)}"
        if isinstance(s, ast.For):
            return self.loop(s, rest, fall)
        if isinstance(s, ast.Expr) and isinstance(s.value, ast.Call):
            t, ty = self.eff(s.value)
            if ty != UNIT:
                raise Untranslatable("the value of a call is dropped")
            return f"match {t} with\n  | ({self.state}, None) => {self.raised}\n  | ({self.state}, Some _) =>\n  {self.block(rest, fall)}\n  end"
        if isinstance(s, ast.Assign) and len(s.targets) == 1:
            tg, v = s.targets[0], s.value
            # A, B = popfirst(ARGS)
            if (isinstance(tg, ast.Tuple) and len(tg.elts) == 2 and all(isinstance(x, ast.Name) for x in tg.elts)
                    and isinstance(v, ast.Call) and isinstance(v.func, ast.Name) and v.func.id == "popfirst"
                    and len(v.args) == 1 and not v.keywords and isinstance(v.args[0], ast.Name)
                    and self.env.get(v.args[0].id) == ARGS):
                a, b = (x.id for x in tg.elts)
                src = g(v.args[0].id)
                self.env[a], self.env[b] = OPTVAL, ARGS
                return f"let '({g(a)}, {g(b)}) := popfirst {src} in\n  {self.block(rest, fall)}"
            # A, B = unflatten_and_split(KWARGS, expected_keys=NAMES)
            if (isinstance(tg, ast.Tuple) and len(tg.elts) == 2 and all(isinstance(x, ast.Name) for x in tg.elts)
                    and isinstance(v, ast.Call) and isinstance(v.func, ast.Name) and v.func.id == "unflatten_and_split"
                    and "unflatten_and_split" in self.const_funcs and len(v.args) == 1 and len(v.keywords) == 1
                    and v.keywords[0].arg == "expected_keys"):
                kw, tk = self.pure(v.args[0])
                names, tn = self.pure(v.keywords[0].value)
                if (tk, tn) != (KWARGS, NAMES):
                    raise Untranslatable(f"unflatten_and_split({tk}, expected_keys={tn})")
                a, b = (x.id for x in tg.elts)
                self.env[a], self.env[b] = SPLIT, KWARGS
                return f"let '({g(a)}, {g(b)}) := unflatten_and_split {kw} {names} in\n  {self.block(rest, fall)}"
            # NAME = {}
            if isinstance(tg, ast.Name) and isinstance(v, ast.Dict) and not v.keys:
                self.env[tg.id] = PDICT
                return f"let {g(tg.id)} := ([] : pdict) in\n  {self.block(rest, fall)}"
            # NAME = {"k": E, ...}
            if isinstance(tg, ast.Name) and isinstance(v, ast.Dict) and v.keys:
                items, name = [], tg.id

                def go(k):
                    if k == len(v.keys):
                        self.env[name] = PDICT
                        return f"let {g(name)} := [{'; '.join(items)}] in\n  {self.block(rest, fall)}"
                    x = self.fresh()

                    def cont(ty):
                        if ty != QC:
                            raise Untranslatable(f"dict value is a {ty}")
                        items.append(f"({_path(v.keys[k])}, Leaf {x})")
                        return go(k + 1)
                    return self.bind(v.values[k], x, cont)
                return go(0)
            # NAME = E
            if isinstance(tg, ast.Name):
                fresh_copy = (isinstance(v, ast.Call) and isinstance(v.func, ast.Attribute) and v.func.attr == "copy"
                              and not v.args and not v.keywords)

                def cont(ty):
                    self.env[tg.id] = ty
                    (self.owned.add if fresh_copy else self.owned.discard)(tg.id)
                    return self.block(rest, fall)
                return self.bind(v, g(tg.id), cont)
            # NAME["k"] = E  |  NAME[KEY] = E with KEY a name (one path component)
            if isinstance(tg, ast.Subscript) and isinstance(tg.value, ast.Name) and self.env.get(tg.value.id) == PDICT:
                x, d = self.fresh(), g(tg.value.id)
                if isinstance(tg.slice, ast.Name) and self.env.get(tg.slice.id) == STR:
                    key = f"[{g(tg.slice.id)}]"
                else:
                    key = _path(tg.slice)

                def cont(ty):
                    if ty not in (QC, PDICT):
                        raise Untranslatable(f"dict value is a {ty}")
                    return (f"let {d} := kw_set {key} ({'Leaf' if ty == QC else 'Node'} {x}) {d} in\n  "
                            f"{self.block(rest, fall)}")
                return self.bind(v, x, cont)
            # self._attr = E
            ch = _attr_chain(tg)
            if ch is not None and len(ch) == 2 and ch[0] == "self" and ch[1] in ATTRS:
                t, ty = self.pure(v)
                if ty != QC:
                    raise Untranslatable(f"self.{ch[1]} = <{ty}> (a user value must pass the range check first)")
                return f"let self_ := {ATTRS[ch[1]][1]} self_ {t} in\n  {self.block(rest, fall)}"
        raise Untranslatable(f"statement {type(s).__name__}: {ast.dump(s)[:160]}")


def _meth_loop(self, s: ast.For, rest, fall) -> str:
    """for KEY, OBJ in OBJECTS.items(): BODY  with OBJECTS the threaded dict of objects -> py_for_items"""
    ok = (not s.orelse and self.objects is not None and isinstance(s.iter, ast.Call) and not s.iter.args
          and not s.iter.keywords and _attr_chain(s.iter.func) == [self.objects, "items"] and isinstance(s.target, ast.Tuple)
          and len(s.target.elts) == 2 and all(isinstance(x, ast.Name) for x in s.target.elts))
    if not ok:
        raise Untranslatable("loop is not `for KEY, OBJ in <objects>.items()`")
    key, obj = (x.id for x in s.target.elts)
    if key in self.env or obj in self.env or key == obj:
        raise Untranslatable("loop variables shadow other variables")
    if any(isinstance(n, (ast.Return, ast.Break, ast.Continue)) for x in s.body for n in ast.walk(x)):
        raise Untranslatable("return / break / continue inside the loop")
    if self.objects in _reads(s.body) or {key, obj} & _reads(rest):
        raise Untranslatable("the loop body uses the dict of objects / the loop variables are used after the loop")
    carried = [n for n in _assigned(s.body) if n in self.env]
    if len(carried) != 1 or {key, obj} & set(_assigned(s.body)):
        raise Untranslatable(f"loop-carried variables {carried}")
    c = carried[0]
    inner = Meth({**self.env, key: STR}, self.ret_ty, state=obj, const=self.const, obj=obj)
    inner.const_funcs = self.const_funcs
    inner.n = self.n
    body = inner.block(list(s.body), f"({g(obj)}, Some {g(c)})")
    self.n = inner.n
    if inner.env[c] != self.env[c]:
        raise Untranslatable(f"the type of {c} changes in the loop")
    st = self.state
    return (f"match py_for_items (fun {g(key)} {g(obj)} {g(c)} =>\n  {body}) {st} {g(c)} with\n"
            f"  | ({st}, None) => {self.raised}\n  | ({st}, Some {g(c)}) =>\n  {self.block(rest, fall)}\n  end")


Meth.loop = _meth_loop


def _edge_tree():
    tree = ast.parse(_src("lymph/graph.py"))
    # the readings of the module docstring: the two properties, and popfirst is utils.popfirst
    for prop, want in (("is_growth", "self.parent == self.child"), ("is_tumor_spread", "isinstance(self.parent, Tumor)")):
        st = _strip_doc(_func(tree, prop, "Edge").body)
        if not (len(st) == 1 and isinstance(st[0], ast.Return)
                and ast.dump(st[0].value) == ast.dump(ast.parse(want, mode="eval").body)):
            raise Untranslatable(f"Edge.{prop} is not `return {want}`")
    imported = any(isinstance(n, ast.ImportFrom) and n.module == "lymph.utils" and any(a.name == "popfirst" and a.asname is None for a in n.names)
                   for n in tree.body)
    redefined = any(isinstance(n, (ast.FunctionDef, ast.ClassDef)) and n.name == "popfirst" for n in tree.body) or any(
        isinstance(n, ast.Assign) and any(isinstance(t, ast.Name) and t.id == "popfirst" for t in n.targets) for n in tree.body)
    if not imported or redefined:
        raise Untranslatable("popfirst is not (only) imported from lymph.utils")
    cls = next(n for n in tree.body if isinstance(n, ast.ClassDef) and n.name == "Edge")
    # spread_prob / micro_mod must not be shadowed: the methods are called directly
    return tree, cls


def _edge_method(tree, name: str) -> str:
    fn = _func(tree, name, "Edge")
    sig = "(tri : bool) (hasattr : string -> bool) (self_ : edge)"
    if name in ("get_spread_prob", "get_micro_mod"):
        _params(fn, ["self"])
        m = Meth({}, QC)
        return f"Definition gen_{name} {sig} : edge * option Qc :=\n  {m.block(_strip_doc(fn.body), None)}.\n"
    if name in ("set_spread_prob", "set_micro_mod"):
        p = [a.arg for a in fn.args.args]
        if len(p) != 2:
            raise Untranslatable(f"{name}: signature {p}")
        _params(fn, p)
        m = Meth({p[1]: VAL}, UNIT)
        return (f"Definition gen_{name} {sig} ({g(p[1])} : val) : edge * option unit :=\n  "
                f"{m.block(_strip_doc(fn.body), '(self_, Some tt)')}.\n")
    if name == "get_params":
        _params(fn, ["self", "as_dict"], [True], kwarg="_kwargs")
        m = Meth({}, PDICT, const={"as_dict": "true"})
        return f"Definition gen_edge_get_params {sig} : edge * option pdict :=\n  {m.block(_strip_doc(fn.body), None)}.\n"
    if name == "set_params":
        _params(fn, ["self"], vararg="args", kwarg="kwargs")
        m = Meth({"args": ARGS, "kwargs": KWARGS}, ARGS)
        return (f"Definition gen_edge_set_params {sig} (args_ : args) (kwargs_ : kwargs) : edge * option args :=\n  "
                f"{m.block(_strip_doc(fn.body), None)}.\n")
    raise Untranslatable(name)


HYP = ('hasattr "_spread_prob" = true -> (has_micro tri e = true -> hasattr "_micro_mod" = true) ->')


def translate_edge_get_params() -> str:
    tree, _ = _edge_tree()
    return ("".join(_edge_method(tree, n) for n in ("get_spread_prob", "get_micro_mod", "get_params"))
            + "Lemma gen_edge_get_params_np : forall tri hasattr e, gen_edge_get_params tri hasattr e = np_edge_get_params tri hasattr e.\n"
              "Proof. intros. reflexivity. Qed.\n"
              f"Lemma gen_edge_get_params_eq : forall tri hasattr e, {HYP}\n"
              "  gen_edge_get_params tri hasattr e = (e, Some (edge_get_params tri e)).\n"
              "Proof. intros tri hasattr e Hs Hm. rewrite gen_edge_get_params_np. apply np_edge_get_params_eq; assumption. Qed.\n")


def translate_edge_set_params() -> str:
    tree, _ = _edge_tree()
    return ("".join(_edge_method(tree, n) for n in ("get_spread_prob", "get_micro_mod", "set_spread_prob", "set_micro_mod", "set_params"))
            + "Lemma gen_edge_set_params_np : forall tri hasattr e a kw,\n"
              "  gen_edge_set_params tri hasattr e a kw = np_edge_set_params tri hasattr e a kw.\n"
              "Proof. intros. reflexivity. Qed.\n"
              f"Lemma gen_edge_set_params_eq : forall tri hasattr e a kw, {HYP}\n"
              "  gen_edge_set_params tri hasattr e a kw = edge_set_params tri e a kw.\n"
              "Proof. intros tri hasattr e a kw Hs Hm. rewrite gen_edge_set_params_np. apply np_edge_set_params_eq; assumption. Qed.\n")


# ----------------------------------------------------------------------------------------------------------------------
# utils.set_params_for / utils.get_params_from: generic in the class of the objects
# ----------------------------------------------------------------------------------------------------------------------
def _utils_tree(*funcs):
    tree = ast.parse(_src("lymph/utils.py"))
    for f in funcs:
        if sum(1 for n in tree.body if isinstance(n, ast.FunctionDef) and n.name == f) != 1:
            raise Untranslatable(f"utils.{f} is not defined exactly once")
    return tree


def translate_set_params_for() -> str:
    tree = _utils_tree("unflatten_and_split", "set_params_for")
    fn = _func(tree, "set_params_for")
    _params(fn, ["objects"], vararg="args", kwarg="kwargs")
    m = Meth({"args": ARGS, "kwargs": KWARGS}, ARGS, state="objects", objects="objects")
    m.const_funcs = {"unflatten_and_split"}
    body = m.block(_strip_doc(fn.body), None)
    return ("Definition gen_set_params_for {O} (set_params_ : O -> args -> kwargs -> O * option args)\n"
            "    (objects_ : list (string * O)) (args_ : args) (kwargs_ : kwargs) : list (string * O) * option args :=\n  "
            + body + ".\n"
            "Lemma gen_set_params_for_np : forall O (sp : O -> args -> kwargs -> O * option args) objs a kw,\n"
            "  gen_set_params_for sp objs a kw = np_set_params_for sp objs a kw.\n"
            "Proof. intros. reflexivity. Qed.\n"
            "Lemma gen_set_params_for_eq : forall tri es a kw,\n"
            "  gen_set_params_for (edge_set_params tri) (edge_objects es) a kw\n"
            "  = let '(split, glob) := unflatten_and_split kw (map e_name es) in\n"
            "    let '(es', o) := set_edges_for tri sel_all split glob es a in\n"
            "    (edge_objects es', o).\n"
            "Proof. intros tri es a kw. rewrite gen_set_params_for_np. apply np_set_params_for_edges. Qed.\n"
            "Lemma gen_set_params_for_graph : forall g a kw,\n"
            "  (let '(objs, o) := gen_set_params_for (edge_set_params (g_tri g)) (edge_objects (g_edges g)) a kw in\n"
            "   (with_edges g (map snd objs), o)) = graph_set_params g a kw.\n"
            "Proof. intros g a kw. rewrite gen_set_params_for_np. apply np_set_params_for_graph. Qed.\n")


def _flatten_def(tree) -> str:
    """utils.flatten as a Fixpoint on a recursion bound `fuel`:
         ITEMS = []
         for K, V in mapping.items():
             NK = f"{parent_key}{sep}{K}" if parent_key else K        (any assignments of path expressions)
             if isinstance(V, dict): ITEMS.extend(flatten(V, NK, sep=sep).items())
             else: ITEMS.append((NK, V))
         return dict(ITEMS)"""
    fn = _func(tree, "flatten")
    _params(fn, ["mapping", "parent_key", "sep"], ["", "_"])
    st = _strip_doc(fn.body)
    if len(st) != 3:
        raise Untranslatable(f"flatten: {len(st)} statements")
    init, loop, ret = st
    if not (isinstance(init, ast.Assign) and len(init.targets) == 1 and isinstance(init.targets[0], ast.Name)
            and isinstance(init.value, ast.List) and not init.value.elts):
        raise Untranslatable("flatten: first statement is not `ITEMS = []`")
    items = init.targets[0].id
    ok = (isinstance(loop, ast.For) and not loop.orelse and isinstance(loop.target, ast.Tuple) and len(loop.target.elts) == 2
          and all(isinstance(x, ast.Name) for x in loop.target.elts) and isinstance(loop.iter, ast.Call)
          and not loop.iter.args and not loop.iter.keywords and _attr_chain(loop.iter.func) == ["mapping", "items"])
    if not ok:
        raise Untranslatable("flatten: loop is not `for K, V in mapping.items()`")
    k, v = (x.id for x in loop.target.elts)
    if len({items, k, v, "mapping", "parent_key", "sep"}) != 6:
        raise Untranslatable("flatten: variable names clash")
    ok = (isinstance(ret, ast.Return) and isinstance(ret.value, ast.Call) and isinstance(ret.value.func, ast.Name)
          and ret.value.func.id == "dict" and len(ret.value.args) == 1 and not ret.value.keywords
          and isinstance(ret.value.args[0], ast.Name) and ret.value.args[0].id == items)
    if not ok:
        raise Untranslatable("flatten: last statement is not `return dict(ITEMS)`")
    TREE = "ptree"

    def path(e, env) -> str:
        if isinstance(e, ast.Name) and env.get(e.id) == PATH:
            return g(e.id)
        if (isinstance(e, ast.JoinedStr) and len(e.values) == 3
                and all(isinstance(x, ast.FormattedValue) and x.conversion == -1 and x.format_spec is None for x in e.values)
                and isinstance(e.values[1].value, ast.Name) and e.values[1].value.id == "sep"):
            return f"({path(e.values[0].value, env)} ++ {path(e.values[2].value, env)})"
        if isinstance(e, ast.IfExp) and isinstance(e.test, ast.Name) and env.get(e.test.id) == PATH:
            return f"(if path_nonempty {g(e.test.id)} then {path(e.body, env)} else {path(e.orelse, env)})"
        raise Untranslatable(f"flatten: key expression {ast.dump(e)[:160]}")

    def method_on_items(s, attr):
        if (isinstance(s, ast.Expr) and isinstance(s.value, ast.Call) and _attr_chain(s.value.func) == [items, attr]
                and len(s.value.args) == 1 and not s.value.keywords):
            return s.value.args[0]
        return None

    def block(stmts, env) -> str:
        if not stmts:
            return g(items)
        s, rest = stmts[0], stmts[1:]
        if isinstance(s, ast.Assign) and len(s.targets) == 1 and isinstance(s.targets[0], ast.Name) \
                and s.targets[0].id not in (items, k, v, "mapping", "parent_key", "sep"):
            t = path(s.value, env)
            return f"let {g(s.targets[0].id)} := {t} in\n        {block(rest, {**env, s.targets[0].id: PATH})}"
        if (isinstance(s, ast.If) and s.orelse and isinstance(s.test, ast.Call) and isinstance(s.test.func, ast.Name)
                and s.test.func.id == "isinstance" and len(s.test.args) == 2 and not s.test.keywords
                and isinstance(s.test.args[0], ast.Name) and env.get(s.test.args[0].id) == TREE
                and isinstance(s.test.args[1], ast.Name) and s.test.args[1].id == "dict"):
            x = s.test.args[0].id
            a = block(list(s.body) + rest, {**env, x: PDICT})
            b = block(list(s.orelse) + rest, {**env, x: QC})
            return f"match {g(x)} with\n        | Node {g(x)} => {a}\n        | Leaf {g(x)} => {b}\n        end"
        arg = method_on_items(s, "extend")
        if arg is not None:
            # ITEMS.extend(flatten(D, P, sep=sep).items())
            ok = (isinstance(arg, ast.Call) and not arg.args and not arg.keywords and isinstance(arg.func, ast.Attribute)
                  and arg.func.attr == "items" and isinstance(arg.func.value, ast.Call)
                  and isinstance(arg.func.value.func, ast.Name) and arg.func.value.func.id == "flatten")
            if not ok:
                raise Untranslatable("flatten: extend with something else than flatten(...).items()")
            c = arg.func.value
            ok = (len(c.args) == 2 and isinstance(c.args[0], ast.Name) and env.get(c.args[0].id) == PDICT
                  and len(c.keywords) == 1 and c.keywords[0].arg == "sep" and isinstance(c.keywords[0].value, ast.Name)
                  and c.keywords[0].value.id == "sep")
            if not ok:
                raise Untranslatable("flatten: recursive call is not flatten(<dict>, <key>, sep=sep)")
            return (f"let {g(items)} := {g(items)} ++ gen_flatten fuel {g(c.args[0].id)} {path(c.args[1], env)} in\n        "
                    f"{block(rest, env)}")
        arg = method_on_items(s, "append")
        if arg is not None:
            ok = (isinstance(arg, ast.Tuple) and len(arg.elts) == 2 and isinstance(arg.elts[1], ast.Name)
                  and env.get(arg.elts[1].id) == QC)
            if not ok:
                raise Untranslatable("flatten: append of something else than (<key>, <number>)")
            return (f"let {g(items)} := {g(items)} ++ [({path(arg.elts[0], env)}, Leaf {g(arg.elts[1].id)})] in\n        "
                    f"{block(rest, env)}")
        raise Untranslatable(f"flatten: statement {ast.dump(s)[:160]}")

    body = block(list(loop.body), {"parent_key": PATH, k: PATH, v: TREE})
    return ("Fixpoint gen_flatten (fuel : nat) (mapping_ : pdict) (parent_key_ : path) : pdict :=\n"
            "  match fuel with\n  | O => []\n  | S fuel =>\n"
            f"      let {g(items)} := ([] : pdict) in\n"
            f"      let {g(items)} :=\n"
            f"        fold_left (fun ({g(items)} : pdict) '(({g(k)}, {g(v)}) : path * ptree) =>\n        {body})\n"
            f"          mapping_ {g(items)} in\n"
            f"      dict_of {g(items)}\n  end.\n"
            "Lemma gen_flatten_np : forall fuel d p, gen_flatten fuel d p = np_flatten fuel d p.\n"
            "Proof. intros. reflexivity. Qed.\n")


def translate_flatten() -> str:
    return (_flatten_def(_utils_tree("flatten"))
            + "Lemma gen_flatten_eq : forall fuel d, depth1 d -> gen_flatten (S (S fuel)) d [] = flatten d.\n"
              "Proof. intros fuel d H. rewrite gen_flatten_np. apply np_flatten_depth1. exact H. Qed.\n")


def translate_get_params_from() -> str:
    tree = _utils_tree("flatten", "get_params_from")
    fn = _func(tree, "get_params_from")
    _params(fn, ["objects", "as_dict", "as_flat"], [True, True])
    m = Meth({"as_flat": BOOL}, PDICT, state="objects", const={"as_dict": "true"}, objects="objects")
    m.const_funcs = {"flatten"}
    body = m.block(_strip_doc(fn.body), None)
    return (_flatten_def(tree)
            + "Definition gen_get_params_from {O} (fuel : nat) (get_params_ : O -> bool -> O * option pdict)\n"
            "    (objects_ : list (string * O)) (as_flat_ : bool) : list (string * O) * option pdict :=\n  "
            + body + ".\n"
            "Lemma gen_get_params_from_np : forall O fuel (gp : O -> bool -> O * option pdict) objs fl,\n"
            "  gen_get_params_from fuel gp objs fl = np_get_params_from fuel gp objs fl.\n"
            "Proof. intros. reflexivity. Qed.\n"
            "Lemma gen_get_params_from_eq : forall tri fuel (gp : edge -> bool -> edge * option pdict) es fl,\n"
            "  (forall e fl', In e es -> gp e fl' = (e, Some (edge_get_params tri e))) ->\n"
            "  gen_get_params_from (S (S fuel)) gp (edge_objects es) fl = (edge_objects es, Some (edges_get_params tri es fl)).\n"
            "Proof. intros tri fuel gp es fl H. rewrite gen_get_params_from_np. apply np_get_params_from_edges. exact H. Qed.\n")


HEADER = ("(* GENERATED on every run by harness/translate5.py from the Python source of lymph; do not edit *)\n"
          "From LymphModel Require Import Base States Linalg Graph Transition Observation Dist Unilateral Models Params NumpyParams.\n"
          "Local Open Scope nat_scope.\nLocal Open Scope string_scope.\nLocal Open Scope list_scope.\n\n")

PIECES = {
    "popfirst": (translate_popfirst, "gen_popfirst_eq", "lymph/utils.py popfirst"),
    "unflatten_and_split": (translate_unflatten_and_split, "gen_unflatten_and_split_eq", "lymph/utils.py unflatten_and_split"),
    "edge_get_params": (translate_edge_get_params, "gen_edge_get_params_eq",
                        "lymph/graph.py Edge.get_params (get_spread_prob, get_micro_mod)"),
    "edge_set_params": (translate_edge_set_params, "gen_edge_set_params_eq",
                        "lymph/graph.py Edge.set_params (set_spread_prob, set_micro_mod, get_spread_prob, get_micro_mod)"),
    "set_params_for": (translate_set_params_for, "gen_set_params_for_eq", "lymph/utils.py set_params_for"),
    "flatten": (translate_flatten, "gen_flatten_eq", "lymph/utils.py flatten (dicts nested one level deep)"),
    "get_params_from": (translate_get_params_from, "gen_get_params_from_eq", "lymph/utils.py get_params_from (with flatten)"),
}


def generate(piece: str) -> str:
    fn, lemma, _ = PIECES[piece]
    return HEADER + fn() + f"Print Assumptions {lemma}.\n"


if __name__ == "__main__":
    import sys
    for p in (sys.argv[1:] or PIECES):
        print(generate(p))
