"""Source-to-Gallina translator for the table-like core of lymph (the SECOND tie between model and code).

On every run the Python source under $LYMPH_REPO is parsed with `ast` and three pieces are re-generated as Gallina
definitions; a generated file then PROVES them equal to the hand-written model for ALL arguments:

  utils.comp_transition_tensor            -> gen_comp_transition_tensor     = Transition.comp_transition_tensor
  modalities.{Modality,Clinical,Pathological}.compute_confusion_matrix
                                          -> gen_confusion                  = Observation.confusion_matrix
  matrix.compute_encoding's element_map   -> gen_element                    = Observation.element
  matrix.generate_observation             -> gen_generate_observation       = Observation.generate_observation

The translator is fail-closed: it accepts exactly the statement and expression forms listed below and raises
`Untranslatable` for anything else (a rewrite of these functions, harmless or not, therefore breaks the obligation; the
correspondence check then decides whether a failing input exists).

Accepted Python (after dropping docstrings):
  statements   NAME = EXPR | NAME[i, j, :] = EXPR | if TEST: BLOCK-ending-in-return | return NAME | return EXPR
  tests        NAME | not self.NAME | NAME == INT
  expressions  NAME | self.NAME | float/int constants | a + b | a - b | a * b | [e, ..., *NAME] | np.array(LIST)
               | [0.0] * (NAME - INT) | np.stack([np.eye(NAME)] * NAME) | super().compute_confusion_matrix()
               | np.vstack([X, Y]) with X, Y in {NAME, NAME[INT]}
  element_map  dict literals {KEY: np.array([bool, ...])} with keys among "healthy", "involved", "micro", "macro",
               "notmacro", True, False, inside `if base == 2 / elif base == 3`
"""
from __future__ import annotations

import ast
import os
from pathlib import Path


class Untranslatable(Exception):
    pass


def _src(rel: str) -> str:
    repo = os.environ.get("LYMPH_REPO", "/repo")
    return (Path(repo) / rel).read_text()


def _func(tree, name, cls=None):
    body = tree.body
    if cls is not None:
        for n in body:
            if isinstance(n, ast.ClassDef) and n.name == cls:
                body = n.body
                break
        else:
            raise Untranslatable(f"class {cls} not found")
    for n in body:
        if isinstance(n, ast.FunctionDef) and n.name == name:
            return n
    raise Untranslatable(f"function {name} not found" + (f" in {cls}" if cls else ""))


def _strip_doc(stmts):
    if stmts and isinstance(stmts[0], ast.Expr) and isinstance(stmts[0].value, ast.Constant) and isinstance(stmts[0].value.value, str):
        return stmts[1:]
    return stmts


def _is_np(call, attr):
    return (isinstance(call, ast.Call) and isinstance(call.func, ast.Attribute) and call.func.attr == attr
            and isinstance(call.func.value, ast.Name) and call.func.value.id == "np" and not call.keywords)


# ------------------------------------------------------------------------------------------------------------------
# generic expression translation (values are Qc, indices and sizes are nat)
# ------------------------------------------------------------------------------------------------------------------
class Tr:
    def __init__(self, names: dict):
        self.names = dict(names)          # python name -> gallina name

    def nat(self, e) -> str:
        if isinstance(e, ast.Constant) and isinstance(e.value, int) and not isinstance(e.value, bool) and e.value >= 0:
            return f"{e.value}%nat"
        if isinstance(e, ast.Name) and e.id in self.names:
            return self.names[e.id]
        if isinstance(e, ast.BinOp) and isinstance(e.op, ast.Sub):
            return f"({self.nat(e.left)} - {self.nat(e.right)})%nat"
        raise Untranslatable(f"size/index expression {ast.dump(e)}")

    def q(self, e) -> str:
        if isinstance(e, ast.Constant) and isinstance(e.value, (int, float)) and not isinstance(e.value, bool):
            v = float(e.value)
            if v != int(v) or v < 0:
                raise Untranslatable(f"constant {e.value}")
            return f"{int(v)}%Qc"
        if isinstance(e, ast.Name) and e.id in self.names:
            return self.names[e.id]
        if isinstance(e, ast.Attribute) and isinstance(e.value, ast.Name) and e.value.id == "self" and ("self." + e.attr) in self.names:
            return self.names["self." + e.attr]
        if isinstance(e, ast.BinOp) and isinstance(e.op, (ast.Add, ast.Sub, ast.Mult)):
            op = {ast.Add: "+", ast.Sub: "-", ast.Mult: "*"}[type(e.op)]
            return f"({self.q(e.left)} {op} {self.q(e.right)})%Qc"
        raise Untranslatable(f"value expression {ast.dump(e)}")

    def vec(self, e) -> str:
        """a 1-d array of values"""
        if _is_np(e, "array") and len(e.args) == 1:
            return self.vec(e.args[0])
        if isinstance(e, ast.List):
            plain, tail = [], None
            for k, x in enumerate(e.elts):
                if isinstance(x, ast.Starred):
                    if k != len(e.elts) - 1 or not isinstance(x.value, ast.Name) or x.value.id not in self.names:
                        raise Untranslatable("starred element not last / unknown")
                    tail = self.names[x.value.id]
                else:
                    plain.append(self.q(x))
            body = "[" + "; ".join(plain) + "]"
            return f"({body} ++ {tail})" if tail else body
        if (isinstance(e, ast.BinOp) and isinstance(e.op, ast.Mult) and isinstance(e.left, ast.List) and len(e.left.elts) == 1):
            return f"(repeat {self.q(e.left.elts[0])} {self.nat(e.right)})"
        raise Untranslatable(f"vector expression {ast.dump(e)}")


# ------------------------------------------------------------------------------------------------------------------
# utils.comp_transition_tensor
# ------------------------------------------------------------------------------------------------------------------
def translate_tensor() -> str:
    fn = _func(ast.parse(_src("lymph/utils.py")), "comp_transition_tensor")
    params = [a.arg for a in fn.args.args]
    if params != ["num_parent", "num_child", "is_tumor_spread", "is_growth", "spread_prob", "micro_mod"]:
        raise Untranslatable(f"signature {params}")
    tr = Tr({p: p for p in params})

    def expr(e) -> str:
        # np.stack([np.eye(n)] * m)
        if _is_np(e, "stack") and len(e.args) == 1:
            a = e.args[0]
            if (isinstance(a, ast.BinOp) and isinstance(a.op, ast.Mult) and isinstance(a.left, ast.List) and len(a.left.elts) == 1
                    and _is_np(a.left.elts[0], "eye") and len(a.left.elts[0].args) == 1):
                return f"(repeat (eye {tr.nat(a.left.elts[0].args[0])}) {tr.nat(a.right)})"
            raise Untranslatable("np.stack argument")
        try:
            return tr.vec(e)
        except Untranslatable:
            return tr.q(e)

    def test(t) -> str:
        if isinstance(t, ast.Name) and t.id in ("is_tumor_spread", "is_growth"):
            return t.id
        if (isinstance(t, ast.Compare) and len(t.ops) == 1 and isinstance(t.ops[0], ast.Eq) and isinstance(t.left, ast.Name)
                and t.left.id in ("num_parent", "num_child")):
            return f"(Nat.eqb {tr.nat(t.left)} {tr.nat(t.comparators[0])})"
        raise Untranslatable(f"test {ast.dump(t)}")

    def block(stmts) -> str:
        if not stmts:
            raise Untranslatable("block falls through without return")
        s, rest = stmts[0], stmts[1:]
        if isinstance(s, ast.Return):
            if rest:
                raise Untranslatable("code after return")
            if isinstance(s.value, ast.Name) and s.value.id in tr.names:
                return tr.names[s.value.id]
            raise Untranslatable("return value")
        if isinstance(s, ast.Assign) and len(s.targets) == 1:
            tgt = s.targets[0]
            if isinstance(tgt, ast.Name):
                v = expr(s.value)
                tr.names[tgt.id] = tgt.id
                return f"let {tgt.id} := {v} in\n  {block(rest)}"
            if (isinstance(tgt, ast.Subscript) and isinstance(tgt.value, ast.Name) and tgt.value.id == "tensor"
                    and isinstance(tgt.slice, ast.Tuple) and len(tgt.slice.elts) == 3 and isinstance(tgt.slice.elts[2], ast.Slice)
                    and tgt.slice.elts[2].lower is None and tgt.slice.elts[2].upper is None and tgt.slice.elts[2].step is None):
                i, j = tr.nat(tgt.slice.elts[0]), tr.nat(tgt.slice.elts[1])
                return f"let tensor := tensor_set tensor {i} {j} {tr.vec(s.value)} in\n  {block(rest)}"
            raise Untranslatable(f"assignment target {ast.dump(tgt)}")
        if isinstance(s, ast.If) and not s.orelse:
            saved = dict(tr.names)
            then = block(s.body)
            tr.names = saved
            return f"if {test(s.test)} then ({then})\n  else ({block(rest)})"
        raise Untranslatable(f"statement {type(s).__name__}")

    body = block(_strip_doc(fn.body))
    return ("Definition gen_comp_transition_tensor (num_parent num_child : nat) (is_tumor_spread is_growth : bool)\n"
            "  (spread_prob micro_mod : Qc) : tensor :=\n  " + body + ".\n"
            "Lemma gen_comp_transition_tensor_eq : forall np nc it ig sp mm,\n"
            "  gen_comp_transition_tensor np nc it ig sp mm = comp_transition_tensor np nc it ig sp mm.\n"
            "Proof.\n  intros np nc it ig sp mm. unfold gen_comp_transition_tensor, comp_transition_tensor, pad.\n"
            "  destruct it; [|destruct ig; [|destruct (Nat.eqb np 3)]]; try reflexivity;\n"
            "  cbv zeta; repeat (f_equal; try reflexivity; try ring).\nQed.\n")


# ------------------------------------------------------------------------------------------------------------------
# modalities: compute_confusion_matrix of Modality / Clinical / Pathological
# ------------------------------------------------------------------------------------------------------------------
def translate_confusion() -> str:
    tree = ast.parse(_src("lymph/modalities.py"))
    tr = Tr({"self.spec": "sp", "self.sens": "sn"})
    base = _strip_doc(_func(tree, "compute_confusion_matrix", "Modality").body)
    if len(base) != 1 or not isinstance(base[0], ast.Return) or not _is_np(base[0].value, "array") or len(base[0].value.args) != 1 \
            or not isinstance(base[0].value.args[0], ast.List):
        raise Untranslatable("Modality.compute_confusion_matrix is not `return np.array([[..], [..]])`")
    rows = [tr.vec(r) for r in base[0].value.args[0].elts]
    binary = "[" + "; ".join(rows) + "]"

    def sub(cls) -> str:
        st = _strip_doc(_func(tree, "compute_confusion_matrix", cls).body)
        if len(st) != 3:
            raise Untranslatable(f"{cls}.compute_confusion_matrix: {len(st)} statements")
        a, cond, ret = st
        ok = (isinstance(a, ast.Assign) and len(a.targets) == 1 and isinstance(a.targets[0], ast.Name)
              and isinstance(a.value, ast.Call) and isinstance(a.value.func, ast.Attribute) and a.value.func.attr == "compute_confusion_matrix"
              and isinstance(a.value.func.value, ast.Call) and isinstance(a.value.func.value.func, ast.Name)
              and a.value.func.value.func.id == "super" and not a.value.args)
        if not ok:
            raise Untranslatable(f"{cls}: first statement is not `x = super().compute_confusion_matrix()`")
        b = a.targets[0].id
        ok = (isinstance(cond, ast.If) and not cond.orelse and isinstance(cond.test, ast.UnaryOp) and isinstance(cond.test.op, ast.Not)
              and isinstance(cond.test.operand, ast.Attribute) and cond.test.operand.attr == "is_trinary"
              and len(cond.body) == 1 and isinstance(cond.body[0], ast.Return) and isinstance(cond.body[0].value, ast.Name)
              and cond.body[0].value.id == b)
        if not ok:
            raise Untranslatable(f"{cls}: second statement is not `if not self.is_trinary: return {b}`")
        if not (isinstance(ret, ast.Return) and _is_np(ret.value, "vstack") and len(ret.value.args) == 1
                and isinstance(ret.value.args[0], ast.List) and len(ret.value.args[0].elts) == 2):
            raise Untranslatable(f"{cls}: third statement is not `return np.vstack([X, Y])`")
        parts = []
        for x in ret.value.args[0].elts:
            if isinstance(x, ast.Name) and x.id == b:
                parts.append("B")
            elif (isinstance(x, ast.Subscript) and isinstance(x.value, ast.Name) and x.value.id == b
                  and isinstance(x.slice, ast.Constant) and x.slice.value in (0, 1)):
                parts.append(f"[nth {x.slice.value} B []]")
            else:
                raise Untranslatable(f"{cls}: vstack element {ast.dump(x)}")
        return f"({parts[0]} ++ {parts[1]})"

    clin, path = sub("Clinical"), sub("Pathological")
    return ("Definition gen_confusion (trinary pathological : bool) (sp sn : Qc) : mat :=\n"
            f"  let B := {binary} in\n"
            f"  if negb trinary then B else if pathological then {path} else {clin}.\n"
            "Lemma gen_confusion_eq : forall tri pa sp sn,\n"
            "  gen_confusion tri pa sp sn = confusion_matrix (if tri then 3 else 2)%nat {| m_spec := sp; m_sens := sn; m_path := pa |}.\n"
            "Proof. intros tri pa sp sn. destruct tri, pa; try reflexivity;\n  unfold gen_confusion, confusion_matrix; cbn [negb app nth Nat.eqb m_spec m_sens m_path]; repeat (f_equal; try reflexivity; try ring). Qed.\n")


# ------------------------------------------------------------------------------------------------------------------
# matrix.compute_encoding: the two element_map tables
# ------------------------------------------------------------------------------------------------------------------
_KEYS = {"healthy": "IHealthy", "involved": "IInvolved", "micro": "IMicro", "macro": "IMacro", "notmacro": "INotMacro"}


def translate_element_map() -> str:
    fn = _func(ast.parse(_src("lymph/matrix.py")), "compute_encoding")
    ifs = [s for s in fn.body if isinstance(s, ast.If) and isinstance(s.test, ast.Compare) and isinstance(s.test.left, ast.Name)
           and s.test.left.id == "base"]
    if len(ifs) != 1:
        raise Untranslatable("expected one `if base == ...` chain")
    tables = {}
    node = ifs[0]
    while True:
        if not (len(node.test.ops) == 1 and isinstance(node.test.ops[0], ast.Eq) and isinstance(node.test.comparators[0], ast.Constant)):
            raise Untranslatable("base test")
        b = node.test.comparators[0].value
        if len(node.body) != 1 or not isinstance(node.body[0], ast.Assign) or not isinstance(node.body[0].value, ast.Dict):
            raise Untranslatable("element_map assignment")
        d = node.body[0].value
        tab = {}
        for k, v in zip(d.keys, d.values):
            if not (isinstance(k, ast.Constant) and (k.value in _KEYS or k.value is True or k.value is False)):
                raise Untranslatable(f"element_map key {ast.dump(k)}")
            if not (_is_np(v, "array") and len(v.args) == 1 and isinstance(v.args[0], ast.List)
                    and all(isinstance(x, ast.Constant) and isinstance(x.value, bool) for x in v.args[0].elts)):
                raise Untranslatable("element_map value")
            ind = "IInvolved" if k.value is True else "IHealthy" if k.value is False else _KEYS[k.value]
            vec = "[" + "; ".join("true" if x.value else "false" for x in v.args[0].elts) + "]"
            key = ("bool:" if isinstance(k.value, bool) else "str:") + ind
            tab[key] = (ind, vec)
        # True / False must agree with "involved" / "healthy" (the model has one indicator for both spellings)
        for sp_, ind in (("bool:IInvolved", "IInvolved"), ("bool:IHealthy", "IHealthy")):
            if sp_ in tab and tab.get("str:" + ind, tab[sp_])[1] != tab[sp_][1]:
                raise Untranslatable(f"{ind}: boolean and string key disagree")
        tables[b] = {ind: vec for ind, vec in tab.values()}
        if len(node.orelse) == 1 and isinstance(node.orelse[0], ast.If):
            node = node.orelse[0]
            continue
        if not (len(node.orelse) == 1 and isinstance(node.orelse[0], ast.Raise)):
            raise Untranslatable("the chain must end in `else: raise`")
        break
    if sorted(tables) != [2, 3]:
        raise Untranslatable(f"bases {sorted(tables)}")

    def match(tab):
        arms = " | ".join(f"{ind} => Some {vec}" for ind, vec in tab.items())
        missing = [i for i in _KEYS.values() if i not in tab]
        return f"match i with {arms}" + (" | _ => None" if missing else "") + " end"
    return ("Definition gen_element (b : nat) (i : indicator) : option bvec :=\n"
            f"  if Nat.eqb b 2 then {match(tables[2])}\n  else {match(tables[3])}.\n"
            "Lemma gen_element_eq : forall b i, gen_element b i = element b i.\n"
            "Proof. intros b i. unfold gen_element, element. destruct (Nat.eqb b 2); destruct i; reflexivity. Qed.\n")


# ------------------------------------------------------------------------------------------------------------------
# matrix.generate_observation: the two nested loops as folds
# ------------------------------------------------------------------------------------------------------------------
def translate_generate_observation() -> str:
    """accepted shape (names free):
         SHAPE = (base**num_lnls, 1); OBS = np.ones(shape=SHAPE)        (or np.ones(shape=(base**num_lnls, 1)))
         for MOD in modalities:
             M = np.ones(shape=(1, 1))
             for _ in range(num_lnls):
                 M = np.kron(M, MOD.confusion_matrix)
             OBS = row_wise_kron(OBS, M)
         return OBS"""
    fn = _func(ast.parse(_src("lymph/matrix.py")), "generate_observation")
    params = [a.arg for a in fn.args.args]
    if params != ["modalities", "num_lnls", "base"]:
        raise Untranslatable(f"signature {params}")
    st = _strip_doc(fn.body)

    def ones_shape(e, env):
        """np.ones(shape=X) -> the (rows, cols) tuple expression X (resolved through env)"""
        if not (isinstance(e, ast.Call) and isinstance(e.func, ast.Attribute) and e.func.attr == "ones"
                and isinstance(e.func.value, ast.Name) and e.func.value.id == "np" and not e.args
                and len(e.keywords) == 1 and e.keywords[0].arg == "shape"):
            raise Untranslatable("expected np.ones(shape=...)")
        x = e.keywords[0].value
        if isinstance(x, ast.Name) and x.id in env:
            x = env[x.id]
        if not (isinstance(x, ast.Tuple) and len(x.elts) == 2):
            raise Untranslatable("shape is not a pair")
        return x.elts

    def is_one(e):
        return isinstance(e, ast.Constant) and e.value == 1 and not isinstance(e.value, bool)

    def is_pow_states(e):
        return (isinstance(e, ast.BinOp) and isinstance(e.op, ast.Pow) and isinstance(e.left, ast.Name) and e.left.id == "base"
                and isinstance(e.right, ast.Name) and e.right.id == "num_lnls")

    env = {}
    k = 0
    if isinstance(st[k], ast.Assign) and isinstance(st[k].value, ast.Tuple) and isinstance(st[k].targets[0], ast.Name):
        env[st[k].targets[0].id] = st[k].value
        k += 1
    if not (isinstance(st[k], ast.Assign) and isinstance(st[k].targets[0], ast.Name)):
        raise Untranslatable("initialisation of the observation matrix")
    obs = st[k].targets[0].id
    r, c = ones_shape(st[k].value, env)
    if not (is_pow_states(r) and is_one(c)):
        raise Untranslatable("initial shape is not (base**num_lnls, 1)")
    k += 1
    loop = st[k]
    if not (isinstance(loop, ast.For) and isinstance(loop.target, ast.Name) and isinstance(loop.iter, ast.Name)
            and loop.iter.id == "modalities" and not loop.orelse and len(loop.body) == 3):
        raise Untranslatable("outer loop over the modalities")
    mod = loop.target.id
    a, inner, b = loop.body
    if not (isinstance(a, ast.Assign) and isinstance(a.targets[0], ast.Name)):
        raise Untranslatable("inner initialisation")
    m = a.targets[0].id
    r, c = ones_shape(a.value, env)
    if not (is_one(r) and is_one(c)):
        raise Untranslatable("inner initial shape is not (1, 1)")
    ok = (isinstance(inner, ast.For) and isinstance(inner.iter, ast.Call) and isinstance(inner.iter.func, ast.Name)
          and inner.iter.func.id == "range" and len(inner.iter.args) == 1 and isinstance(inner.iter.args[0], ast.Name)
          and inner.iter.args[0].id == "num_lnls" and not inner.orelse and len(inner.body) == 1)
    if not ok:
        raise Untranslatable("inner loop is not `for _ in range(num_lnls)` with one statement")
    u = inner.body[0]
    ok = (isinstance(u, ast.Assign) and isinstance(u.targets[0], ast.Name) and u.targets[0].id == m and _is_np(u.value, "kron")
          and len(u.value.args) == 2 and isinstance(u.value.args[0], ast.Name) and u.value.args[0].id == m
          and isinstance(u.value.args[1], ast.Attribute) and u.value.args[1].attr == "confusion_matrix"
          and isinstance(u.value.args[1].value, ast.Name) and u.value.args[1].value.id == mod)
    if not ok:
        raise Untranslatable(f"inner statement is not `{m} = np.kron({m}, {mod}.confusion_matrix)`")
    ok = (isinstance(b, ast.Assign) and isinstance(b.targets[0], ast.Name) and b.targets[0].id == obs
          and isinstance(b.value, ast.Call) and isinstance(b.value.func, ast.Name) and b.value.func.id == "row_wise_kron"
          and len(b.value.args) == 2 and not b.value.keywords and all(isinstance(x, ast.Name) for x in b.value.args)
          and [x.id for x in b.value.args] == [obs, m])
    if not ok:
        raise Untranslatable(f"outer update is not `{obs} = row_wise_kron({obs}, {m})`")
    k += 1
    if not (k == len(st) - 1 and isinstance(st[k], ast.Return) and isinstance(st[k].value, ast.Name) and st[k].value.id == obs):
        raise Untranslatable("the function must end in `return <observation matrix>`")
    return ("Definition gen_generate_observation (modalities : list modality) (num_lnls base : nat) : mat :=\n"
            "  let obs := repeat [1%Qc] (Nat.pow base num_lnls) in\n"
            "  fold_left (fun (obs : mat) (modality : modality) =>\n"
            "               let m := [[1%Qc]] in\n"
            "               let m := Nat.iter num_lnls (fun m => kron_mat m (confusion_matrix base modality)) m in\n"
            "               row_wise_kron obs m) modalities obs.\n"
            "Lemma gen_iter_kron_pow : forall (C : mat) n, Nat.iter n (fun m => kron_mat m C) [[1%Qc]] = kron_pow C n.\n"
            "Proof. intros C n. induction n as [|n IH]; [reflexivity|]. cbn [Nat.iter nat_rect kron_pow]. unfold Nat.iter in IH. rewrite IH. reflexivity. Qed.\n"
            "Lemma gen_generate_observation_eq : forall mods n b, gen_generate_observation mods n b = generate_observation mods n b.\n"
            "Proof.\n  intros mods n b. unfold gen_generate_observation, generate_observation. cbv zeta.\n"
            "  generalize (repeat [1%Qc] (Nat.pow b n)). induction mods as [|m mods IH]; intros acc; [reflexivity|].\n"
            "  cbn [fold_left]. rewrite gen_iter_kron_pow. apply IH.\nQed.\n")


HEADER = ("(* GENERATED on every run by harness/translate.py from the Python source of lymph; do not edit *)\n"
          "From LymphModel Require Import Base States Linalg Graph Transition Observation.\n"
          "Local Open Scope nat_scope.\nOpen Scope Qc_scope.\n\n")

PIECES = {"tensor": (translate_tensor, "gen_comp_transition_tensor_eq", "lymph/utils.py comp_transition_tensor"),
          "confusion": (translate_confusion, "gen_confusion_eq", "lymph/modalities.py compute_confusion_matrix (Modality, Clinical, Pathological)"),
          "element": (translate_element_map, "gen_element_eq", "lymph/matrix.py compute_encoding element_map"),
          "observation": (translate_generate_observation, "gen_generate_observation_eq", "lymph/matrix.py generate_observation")}


def generate(piece: str) -> str:
    fn, lemma, _ = PIECES[piece]
    return HEADER + fn() + f"Print Assumptions {lemma}.\n"
