"""Core of the verification harness.

One check = (A) proof obligations (build + `Print Assumptions` audit),
(B) correspondence of the Coq model with /repo on generated cases,
(C) search for a failing input when A or B break, (D) evidence.

Everything random derives from one `random.Random(VERIF_SEED)`.
"""
from __future__ import annotations

import fcntl
import hashlib
import json
import math
import os
import random
import re
import shutil
import subprocess
import sys
import time
from fractions import Fraction
from pathlib import Path

VERIF = Path(__file__).resolve().parent.parent
COQ = VERIF / "coq"
REPO = Path("/repo")
TOL = 1e-9

TRUSTED_BASE = [
    "Coq 8.16.1 kernel, vm_compute (no native_compute)",
    "Coq standard library only (QArith, Qcanon, List, Permutation, String, Lia, Lqa/Psatz, ZArith)",
    "hand-written Gallina model of lymph (coq/theories): theorems are about the model",
    "correspondence harness (harness/*.py): generators, Coq term printer/parser, tolerance 1e-9, exception-to-enum map",
    "source translator harness/translate*.py (14 modules, Python ast -> Gallina, fail-closed; 122 functions of lymph: numerical core, uni-/bilateral/midline pipelines, graph construction, distributions, modalities, samplers, parameter plumbing, named parameters); its reading of numpy / pandas primitives (coq/theories/Numpy*.v) and of attribute accesses on lymph objects (module docstrings); advisory pieces (functions that stored behaviour-preserving refactorings rewrite) are recorded but never alarm on their own",
    "not modelled: IEEE rounding / BLAS summation order, pandas internals, Python hash(), numpy bit generator",
]


# --------------------------------------------------------------------------
# Coq term printing
# --------------------------------------------------------------------------
def q(x) -> str:
    """Exact Qc literal of a float / int / Fraction."""
    if isinstance(x, bool):
        x = int(x)
    fr = Fraction(x)
    n, d = fr.numerator, fr.denominator
    ns = f"({n})" if n < 0 else str(n)
    return f"(qc {ns} {d})"


def s(x: str) -> str:
    assert '"' not in x
    return f'"{x}"%string'


def lst(items) -> str:
    items = list(items)
    return "[" + "; ".join(items) + "]"


def tup(*items) -> str:
    return "(" + ", ".join(items) + ")"


def nat(n: int) -> str:
    return f"{int(n)}%nat"


def boolean(b) -> str:
    return "true" if b else "false"


def opt(x, f=lambda v: v) -> str:
    return "None" if x is None else f"(Some {f(x)})"


# --------------------------------------------------------------------------
# Coq output parsing (token based, layout independent)
# --------------------------------------------------------------------------
_TOK = re.compile(
    r'\s*(?:(?P<str>"(?:[^"]|"")*")|(?P<num>-?\d+)|(?P<id>[A-Za-z_][A-Za-z_0-9\.\']*)|(?P<p>[\[\]\(\);,])|(?P<scope>%[A-Za-z_]+))'
)


def _tokens(text: str):
    pos = 0
    n = len(text)
    while pos < n:
        m = _TOK.match(text, pos)
        if not m:
            if text[pos:].strip() == "":
                break
            raise ValueError(f"cannot tokenize Coq output at: {text[pos:pos+40]!r}")
        pos = m.end()
        if m.group("scope"):
            continue
        if m.group("str") is not None:
            yield ("str", m.group("str")[1:-1].replace('""', '"'))
        elif m.group("num") is not None:
            yield ("num", int(m.group("num")))
        elif m.group("id") is not None:
            yield ("id", m.group("id"))
        else:
            yield ("p", m.group("p"))


class _Parser:
    def __init__(self, toks):
        self.t = list(toks)
        self.i = 0

    def peek(self):
        return self.t[self.i] if self.i < len(self.t) else (None, None)

    def next(self):
        tok = self.peek()
        self.i += 1
        return tok

    def term(self):
        """application: atom atom*"""
        head = self.atom()
        args = []
        while True:
            k, v = self.peek()
            if k in ("str", "num", "id") or (k == "p" and v in "(["):
                args.append(self.atom())
            else:
                break
        if not args:
            return head
        return _apply(head, args)

    def atom(self):
        k, v = self.next()
        if k == "str" or k == "num":
            return v
        if k == "id":
            if v == "true":
                return True
            if v == "false":
                return False
            if v == "None":
                return None
            return ("ctor", v)
        if k == "p" and v == "(":
            items = [self.term()]
            while self.peek() == ("p", ","):
                self.next()
                items.append(self.term())
            assert self.next() == ("p", ")"), "expected )"
            return items[0] if len(items) == 1 else tuple(items)
        if k == "p" and v == "[":
            items = []
            if self.peek() == ("p", "]"):
                self.next()
                return items
            items.append(self.term())
            while self.peek() == ("p", ";"):
                self.next()
                items.append(self.term())
            assert self.next() == ("p", "]"), "expected ]"
            return items
        raise ValueError(f"unexpected token {k} {v}")


def _apply(head, args):
    if isinstance(head, tuple) and head and head[0] == "ctor":
        name = head[1]
        if name == "Some":
            return ("Some", args[0])
        return (name, *args)
    raise ValueError(f"cannot apply {head}")


def parse_coq(text: str):
    p = _Parser(_tokens(text))
    v = p.term()
    assert p.i == len(p.t), f"trailing tokens in Coq output: {p.t[p.i:p.i+5]}"
    return v


def split_evals(out: str):
    """Split coqc stdout into the values of successive `Eval ... in` commands."""
    vals = []
    cur = None
    for line in out.splitlines():
        if line.startswith("     = "):
            if cur is not None:
                vals.append(cur)
            cur = line[7:]
        elif line.startswith("     : "):
            if cur is not None:
                vals.append(cur)
            cur = None
        elif cur is not None:
            cur += " " + line
    if cur is not None:
        vals.append(cur)
    return vals


def frac(pair) -> Fraction:
    n, d = pair
    return Fraction(n, d)


def fracs(v):
    """Recursively turn (num, den) pairs into Fractions inside lists."""
    if isinstance(v, tuple) and len(v) == 2 and all(isinstance(z, int) and not isinstance(z, bool) for z in v):
        return Fraction(v[0], v[1])
    if isinstance(v, list):
        return [fracs(z) for z in v]
    return v


# --------------------------------------------------------------------------
# build / run coq
# --------------------------------------------------------------------------
class HarnessError(Exception):
    pass


def build_coq(log=None) -> tuple[bool, str]:
    """Full .vo build of the development under a file lock. Returns (ok, output)."""
    lock = open(COQ / ".build.lock", "w")
    fcntl.flock(lock, fcntl.LOCK_EX)
    try:
        if not (COQ / "Makefile").exists() or (COQ / "_CoqProject").stat().st_mtime > (COQ / "Makefile").stat().st_mtime:
            subprocess.run(["coq_makefile", "-f", "_CoqProject", "-o", "Makefile"], cwd=COQ, check=True,
                           capture_output=True)
        r = subprocess.run(["timeout", "3000", "make", "-j16"], cwd=COQ, capture_output=True, text=True)
        return r.returncode == 0, r.stdout + r.stderr
    finally:
        fcntl.flock(lock, fcntl.LOCK_UN)
        lock.close()


HEADER = """From LymphModel Require Import {imports}.
Set Printing Width 1000000.
Set Printing Depth 1000000.
Open Scope Z_scope.
Open Scope list_scope.
"""


def run_coq_cases(workdir: Path, exprs: list[str], imports: str, shard: int = 150, prelude: str = "") -> list:
    """Evaluate each Gallina expression with vm_compute; return parsed values in order."""
    workdir.mkdir(parents=True, exist_ok=True)
    files = []
    for k in range(0, len(exprs), shard):
        f = workdir / f"cases_{k // shard}.v"
        with open(f, "w") as fh:
            fh.write(HEADER.format(imports=imports))
            fh.write(prelude + "\n")
            for e in exprs[k:k + shard]:
                fh.write(f"Eval vm_compute in ({e}).\n")
        files.append(f)
    results = []
    maxpar = 16
    outs = {}
    pending = list(files)
    running = []
    # stdout/stderr go to files: a pipe would block coqc after 64 kB and serialise the shards
    while pending or running:
        while pending and len(running) < maxpar:
            f = pending.pop(0)
            fo = open(str(f) + ".out", "w")
            fe = open(str(f) + ".err", "w")
            p = subprocess.Popen(["timeout", "900", "coqc", "-Q", str(COQ / "theories"), "LymphModel", f.name],
                                 cwd=workdir, stdout=fo, stderr=fe, text=True)
            running.append((f, p, fo, fe))
        f, p, fo, fe = running.pop(0)
        p.wait()
        fo.close()
        fe.close()
        if p.returncode != 0:
            for (_f2, p2, fo2, fe2) in running:
                p2.kill()
                fo2.close()
                fe2.close()
            raise HarnessError(f"coqc failed on {f}: {open(str(f) + '.err').read()[-2000:]}")
        outs[f] = open(str(f) + ".out").read()
    for k, f in enumerate(files):
        vals = split_evals(outs[f])
        expect = len(exprs[k * shard:(k + 1) * shard])
        if len(vals) != expect:
            raise HarnessError(f"{f}: expected {expect} results, got {len(vals)}")
        results.extend(parse_coq(v) for v in vals)
    return results


# --------------------------------------------------------------------------
# proof audit (part A)
# --------------------------------------------------------------------------
FORBIDDEN = re.compile(r"\b(Admitted|admit|Axiom|Parameter|Conjecture|bypass_check)\b|Unset\s+Guard|type-in-type|impredicative-set|Admit Obligations")
ALLOWED_AXIOMS: set[str] = set()   # expected: every theorem closed under the global context


def strip_comments(src: str) -> str:
    out = []
    depth = 0
    i = 0
    instr = False
    while i < len(src):
        if not instr and src.startswith("(*", i):
            depth += 1
            i += 2
            continue
        if not instr and depth and src.startswith("*)", i):
            depth -= 1
            i += 2
            continue
        c = src[i]
        if depth == 0:
            if c == '"':
                instr = not instr
            out.append(c)
        i += 1
    return "".join(out)


def audit_sources() -> list[str]:
    problems = []
    listed = [COQ / l.strip() for l in (COQ / "_CoqProject").read_text().splitlines() if l.strip().endswith(".v")]
    for f in listed:   # the development = the files of _CoqProject (a fresh build compiles exactly these)
        src = strip_comments(f.read_text())
        for m in FORBIDDEN.finditer(src):
            problems.append(f"{f.name}: forbidden keyword {m.group(0)!r}")
        # Variable/Hypothesis outside a section
        depth = 0
        for line in src.splitlines():
            st = line.strip()
            if re.match(r"Section\s+\w+", st):
                depth += 1
            elif re.match(r"End\s+\w+", st) and depth:
                depth -= 1
            elif depth == 0 and re.match(r"(Variable|Variables|Hypothesis|Hypotheses|Context)\b", st):
                problems.append(f"{f.name}: {st.split()[0]} outside a section")
    return problems


def audit_property_file(pid: str, workdir: Path) -> dict:
    """Compile properties/<pid>.v (and properties/<pid>_*.v), parse the Print Assumptions blocks."""
    files = [COQ / "properties" / f"{pid}.v"] + sorted((COQ / "properties").glob(f"{pid}_*.v"))
    res = {"file": ", ".join(str(f) for f in files), "theorems": [], "ok": False, "log": "", "declared": [], "examples": []}
    if not files[0].exists():
        res["log"] = "missing property file"
        return res
    workdir.mkdir(parents=True, exist_ok=True)
    ok_all = True
    for src in files:
        tmp = workdir / f"{src.stem}_audit.v"
        shutil.copy(src, tmp)
        r = subprocess.run(["timeout", "900", "coqc", "-Q", str(COQ / "theories"), "LymphModel", tmp.name],
                           cwd=workdir, capture_output=True, text=True)
        res["log"] += (r.stdout + r.stderr)[-4000:]
        if r.returncode != 0:
            return res
        text = strip_comments(src.read_text())
        names = re.findall(r"^\s*Print Assumptions\s+([\w\.']+)\s*\.", text, flags=re.M)
        declared = re.findall(r"^\s*(?:Theorem|Lemma|Corollary)\s+([\w']+)", text, flags=re.M)
        examples = re.findall(r"^\s*Example\s+([\w']+)", text, flags=re.M)
        blocks = re.split(r"(?=Closed under the global context|Axioms:)", r.stdout)
        blocks = [b for b in blocks if b.startswith("Closed under") or b.startswith("Axioms:")]
        ok = len(blocks) == len(names) and len(names) > 0
        for nm, b in zip(names, blocks):
            if b.startswith("Closed under"):
                res["theorems"].append({"name": nm, "assumptions": []})
            else:
                axs = re.findall(r"^([\w\.']+)\s*:", b, flags=re.M)
                res["theorems"].append({"name": nm, "assumptions": axs})
                if not set(axs) <= ALLOWED_AXIOMS:
                    ok = False
        missing = [d for d in declared if d not in names]
        if missing:
            ok = False
            res["log"] += f"\nTheorems without Print Assumptions: {missing}"
        res["declared"] += declared
        res["examples"] += examples
        ok_all = ok_all and ok
    res["ok"] = ok_all
    return res


# --------------------------------------------------------------------------
# known findings
# --------------------------------------------------------------------------
def load_known() -> list[dict]:
    p = VERIF / "known_findings.json"
    if not p.exists():
        return []
    return json.loads(p.read_text())["findings"]


def sig_matches(entry_sig: dict, sig: dict) -> bool:
    """Every key of the listed signature must be matched by the failure's signature."""
    for k, v in entry_sig.items():
        if k not in sig:
            return False
        sv = sig[k]
        if isinstance(v, list) and not isinstance(sv, list):
            if sv not in v:
                return False
        elif v != sv:
            return False
    return True


# --------------------------------------------------------------------------
# context
# --------------------------------------------------------------------------
def jsonable(x):
    if isinstance(x, Fraction):
        return {"num": x.numerator, "den": x.denominator, "approx": float(x)}
    if isinstance(x, float):
        if math.isnan(x):
            return "nan"
        if math.isinf(x):
            return "inf" if x > 0 else "-inf"
        return x
    if isinstance(x, dict):
        return {str(k): jsonable(v) for k, v in x.items()}
    if isinstance(x, (list, tuple)):
        return [jsonable(v) for v in x]
    if isinstance(x, (str, int, bool)) or x is None:
        return x
    try:
        import numpy as np
        if isinstance(x, np.ndarray):
            return jsonable(x.tolist())
        if isinstance(x, np.generic):
            return jsonable(x.item())
    except Exception:
        pass
    return repr(x)


class Ctx:
    def __init__(self, pid: str, tier: str, seed: int, replay: str | None = None):
        self.pid = pid
        self.tier = tier
        self.seed = seed
        self.rng = random.Random(seed)
        self.replay = replay
        self.t0 = time.time()
        self.work = VERIF / ".work" / f"{pid}-{os.getpid()}"
        self.evaluations = 0
        self.digests: set[str] = set()
        self.nontrivial_digests: set[str] = set()
        self.samples: list = []
        self.hist: dict[str, int] = {}
        self.violations: list[dict] = []
        self.known_hits: list[str] = []
        self.notes: list[str] = []
        self.exhaustive = False
        self.rule = ""
        self.cone: list[str] = []
        self.extra: dict = {}
        self.audit: dict = {}
        self.known = [k for k in load_known() if k["property"] == pid]

    # ---- bookkeeping -----------------------------------------------------
    def count(self, case, nontrivial: bool, kind: str | None = None):
        self.evaluations += 1
        dg = hashlib.sha1(json.dumps(jsonable(case), sort_keys=True).encode()).hexdigest()
        self.digests.add(dg)
        if nontrivial:
            self.nontrivial_digests.add(dg)
        if len(self.samples) < 3:
            self.samples.append(jsonable(case))
        if kind:
            self.hist[kind] = self.hist.get(kind, 0) + 1

    def bump(self, key: str, n: int = 1):
        self.hist[key] = self.hist.get(key, 0) + n

    # ---- numbers ---------------------------------------------------------
    @staticmethod
    def close(actual, expected: Fraction, tol: float = TOL) -> bool:
        try:
            a = float(actual)
        except Exception:
            return False
        e = float(expected)
        if math.isnan(a):
            return False
        if expected == 0:
            return abs(a) <= tol
        return abs(a - e) <= tol * max(1.0, abs(e))

    def close_arr(self, actual, expected, tol: float = TOL) -> bool:
        """actual: nested lists / ndarray of floats; expected: nested lists of Fractions."""
        import numpy as np
        a = np.asarray(actual, dtype=float)
        try:
            e = np.array([[float(v) for v in row] for row in expected], dtype=float) if expected and isinstance(expected[0], list) \
                else np.array([float(v) for v in expected], dtype=float)
        except Exception:
            return False
        if a.shape != e.shape:
            if a.size == 0 and e.size == 0:
                return True
            return False
        if a.size == 0:
            return True
        if np.isnan(a).any():
            return False
        return bool(np.all(np.abs(a - e) <= tol * np.maximum(1.0, np.abs(e))))

    # ---- violations ------------------------------------------------------
    def violation(self, what: str, replay: dict, signature: dict | None = None, found_input: bool = True):
        signature = signature or {}
        for k in self.known:
            if k["status"] == "known" and sig_matches(k["signature"], signature):
                line = f"KNOWN-FINDING: property={self.pid} {k['description']}"
                if line not in self.known_hits:
                    self.known_hits.append(line)
                return
        replay = dict(replay)
        replay.update({"property": self.pid, "what": what, "seed": self.seed, "tier": self.tier,
                       "signature": signature,
                       "kind": "failing-input" if found_input else "no-failing-input-found"})
        body = json.dumps(jsonable(replay), sort_keys=True, indent=1)
        dg = hashlib.sha1(body.encode()).hexdigest()[:12]
        path = VERIF / "replays" / f"{self.pid}-{dg}.json"
        path.parent.mkdir(exist_ok=True)
        path.write_text(body)
        self.violations.append({"what": what, "replay": str(path.relative_to(VERIF)), "found_input": found_input})

    # ---- finish ----------------------------------------------------------
    def finish(self) -> int:
        wall = time.time() - self.t0
        audit = self.audit
        ths = audit.get("theorems", [])
        obligations = len(audit.get("declared", [])) or len(ths)
        discharged = len([t for t in ths if set(t["assumptions"]) <= ALLOWED_AXIOMS]) if audit.get("ok") else 0
        if audit.get("ok"):
            discharged = obligations
        tie = self.extra.get("translator_tie", [])
        obligations += len([r for r in tie if r["ok"] or not r.get("advisory")])
        discharged += sum(1 for r in tie if r["ok"])
        ev = {
            "property_id": self.pid,
            "tier": self.tier,
            "seed": self.seed,
            "level": "proof",
            "coverage": {
                "obligations": max(obligations, 1),
                "discharged": max(discharged, 1) if audit.get("ok") else discharged,
                "checker_cmd": f"cd coq && coq_makefile -f _CoqProject -o Makefile && make -j16 && coqc -Q theories LymphModel properties/{self.pid}.v"
                               + (" && coqchk -o" if self.tier == "thorough" else ""),
                "trusted_base": TRUSTED_BASE,
                "theorems": [t["name"] for t in ths],
                "print_assumptions": {t["name"]: (t["assumptions"] or "Closed under the global context") for t in ths},
                "nonvacuity_examples": audit.get("examples", []),
                "evaluations": self.evaluations,
                "distinct_nontrivial": len(self.nontrivial_digests),
                "distinct": len(self.digests),
                "rule": self.rule,
                "samples": self.samples or ["(no generated cases)"],
                "exhaustive": self.exhaustive,
                "input_histogram": self.hist,
                "cone": self.cone,
                "known_findings_hit": self.known_hits,
                **self.extra,
            },
            "assumptions": TRUSTED_BASE + self.notes,
            "wall_s": round(wall, 2),
            "violations": len(self.violations),
        }
        # development runs (proofs skipped, or a scratch copy of the repository) never touch evidence/
        dev = getattr(self, "dev_run", False) or os.environ.get("LYMPH_REPO", "/repo").rstrip("/") != "/repo"
        evdir = VERIF / ".work" / "evidence-dev" if dev else VERIF / "evidence"
        evdir.mkdir(parents=True, exist_ok=True)
        (evdir / f"{self.pid}.json").write_text(json.dumps(jsonable(ev), indent=1))
        for line in self.known_hits:
            print(line)
        for v in self.violations:
            tail = "" if v["found_input"] else " no-failing-input-found"
            print(f"VIOLATION property={self.pid} replay={v['replay']}{tail}")
        shutil.rmtree(self.work, ignore_errors=True)
        print(f"[{self.pid}] tier={self.tier} seed={self.seed} evaluations={self.evaluations} "
              f"nontrivial={len(self.nontrivial_digests)} theorems={len(ths)} violations={len(self.violations)} "
              f"wall={wall:.1f}s")
        return 1 if self.violations else 0


def part_a(ctx: Ctx) -> bool:
    """Proof obligations. Returns True iff all discharged."""
    ok, out = build_coq()
    problems = audit_sources()
    if not ok:
        ctx.audit = {"ok": False, "theorems": [], "log": out[-4000:]}
        ctx.violation("Coq development does not build", {"broken": "make (coq/theories)", "log": out[-3000:]},
                      {"part": "A", "broken": "build"}, found_input=False)
        return False
    if problems:
        ctx.audit = {"ok": False, "theorems": [], "log": "\n".join(problems)}
        ctx.violation("forbidden construct in the Coq development", {"broken": "source audit", "problems": problems},
                      {"part": "A", "broken": "audit"}, found_input=False)
        return False
    audit = audit_property_file(ctx.pid, ctx.work)
    ctx.audit = audit
    if not audit["ok"]:
        ctx.violation(f"proof obligations of {ctx.pid} not discharged",
                      {"broken": f"coq/properties/{ctx.pid}.v", "log": audit["log"][-3000:],
                       "theorems": audit["theorems"]},
                      {"part": "A", "broken": "property file"}, found_input=False)
        return False
    if ctx.tier == "thorough":
        r = subprocess.run(["timeout", "1800", "coqchk", "-o", "-silent", "-Q", str(COQ / "theories"), "LymphModel",
                            "-R", str(ctx.work), "", f"{ctx.pid}_audit"],
                           cwd=ctx.work, capture_output=True, text=True)
        tail = (r.stdout + r.stderr)[-3000:]
        ctx.extra["coqchk"] = {"returncode": r.returncode, "tail": tail}
        if r.returncode != 0:
            ctx.violation("coqchk rejects the compiled development", {"broken": "coqchk -o", "log": tail},
                          {"part": "A", "broken": "coqchk"}, found_input=False)
            return False
    return True


# --------------------------------------------------------------------------
# part T: the table-like core re-translated from the source on every run (harness/translate.py)
# --------------------------------------------------------------------------
TRANSLATOR_TIE = {"C01": ["hmm_likelihood", "add_or_mult", "state_dist_evo", "diagnosis_matrix"],
                  "C02": ["element", "compute_encoding", "tile_and_repeat", "uni_compute_encoding", "posterior_state_dist", "marginalize",
                          "risk", "bi_posterior_state_dist", "bi_marginalize", "bi_risk"],
                  "C03": ["fast_trace", "bi_state_dist", "bi_obs_dist", "bi_patient_likelihoods", "bi_bn_likelihood", "bi_hmm_likelihood"],
                  "C04": ["evolve_midext", "ml_midext_evo", "ml_contra_state_dist_evo", "ml_state_dist", "ml_obs_dist", "ml_hmm_likelihood"],
                  "C05": ["tensor", "state_idx", "generate_transition", "comp_trans_prob", "transition_prob", "get_state", "set_state"],
                  "C06": ["confusion", "observation", "row_wise_kron", "comp_obs_prob", "diagnosis_prob", "observation_matrix", "obs_list", "mod_init", "mod_spec_sens", "mod_check_confusion_matrix", "mod_confusion_matrix_set", "mod_confusion_matrix"],
                  "C07": ["comp_bayes_net_prob", "evolve", "state_dist_evo", "state_dist", "obs_dist"],
                  "C08": ["compute_encoding", "tile_and_repeat", "generate_data_encoding", "early_late_mapping", "diagnosis_matrix"],
                  "C10": ["popfirst", "unflatten_and_split", "edge_get_params", "edge_set_params", "set_params_for", "flatten",
                          "get_params_from", "dist_get_params", "dist_set_params", "leaf_set_dist_params", "leaf_get_dist_params", "synchronize_params", "uni_get_tumor_spread_params", "uni_get_lnl_spread_params", "uni_get_spread_params", "uni_get_params", "uni_set_tumor_spread_params", "uni_set_lnl_spread_params", "uni_set_spread_params", "uni_set_params", "bi_get_tumor_spread_params", "bi_get_lnl_spread_params", "bi_get_spread_params", "bi_get_params", "bi_set_tumor_spread_params", "bi_set_lnl_spread_params", "bi_set_spread_params", "bi_set_params"],
                  "C11": ["edge_set_params", "set_params_for", "synchronize_params", "bi_set_tumor_spread_params", "bi_set_lnl_spread_params", "bi_set_params", "branch_set_modality", "branch_del_modality", "branch_replace_all_modalities", "branch_clear_modalities"],
                  "C12": ["popfirst", "edge_set_params", "dist_set_params", "nm_safe_set_params", "nm_set_named_params", "uni_set_params", "bi_set_params"],
                  "C13": ["bn_likelihood", "hmm_likelihood", "ml_hmm_likelihood"],
                  "C14": ["tensor", "state_idx", "generate_transition", "evolve", "state_dist_evo"],
                  "C17": ["unflatten_and_split", "set_params_for", "nm_named_params", "nm_set_named", "nm_del_named", "nm_does_contain_in_order", "nm_create_alias_map", "nm_get_named_params", "nm_set_named_params", "nm_get_num_dims", "nm_safe_set_params"],
                  "C18": ["dist_normalize", "dist_is_updateable", "dist_max_time", "dist_pmf", "dist_get_params", "dist_set_params",
                          "leaf_set_dist_params", "leaf_get_dist_params"],
                  "C19": ["check_unique_names", "init_nodes", "init_edges", "representation", "to_dict", "gen_state_list", "state_list",
                          "edge_views", "get_name"],
                  "C16": ["utils_draw_diagnosis", "dist_draw_diag_times", "uni_draw_diagnosis", "uni_draw_patients", "bi_draw_patients"],
                  "C20": ["mod_hash", "mod_eq", "leaf_modalities_hash", "branch_modalities_hash"],
                  "C09": ["mod_is_leaf", "leaf_get_all_modalities", "leaf_get_modality", "leaf_set_modality", "leaf_del_modality", "leaf_replace_all_modalities", "leaf_clear_modalities"]}
# advisory pieces: functions that the stored behaviour-preserving refactorings rewrite (tools/translator_vs_patches.sh over
# seeded/refactor-*).  Their obligation is generated, checked and recorded on every run, but when it breaks the
# correspondence alone decides (no violation is raised for the broken obligation itself).
ADVISORY_PIECES = {"observation", "generate_transition", "bn_likelihood", "hmm_likelihood", "fast_trace", "generate_data_encoding",
                   "unflatten_and_split", "set_params_for", "flatten", "get_params_from", "edge_get_params", "edge_set_params",
                   "dist_max_time", "dist_pmf", "dist_set_params", "dist_get_params", "leaf_get_dist_params",
                   "observation_matrix", "diagnosis_matrix", "uni_compute_encoding", "posterior_state_dist", "marginalize", "risk",
                   "bi_state_dist", "bi_obs_dist", "bi_patient_likelihoods", "bi_bn_likelihood", "bi_hmm_likelihood",
                   "bi_posterior_state_dist", "bi_marginalize", "bi_risk",
                   "ml_contra_state_dist_evo", "ml_state_dist", "ml_obs_dist", "ml_hmm_likelihood",
                   "init_nodes", "init_edges", "representation", "to_dict", "gen_state_list", "state_list", "edge_views", "get_name",
                   "get_state", "set_state",
                   "bi_set_tumor_spread_params", "bi_set_lnl_spread_params", "bi_set_spread_params", "bi_set_params",
                   "uni_draw_diagnosis", "uni_draw_patients", "bi_draw_patients",
                   "mod_init", "mod_spec_sens", "mod_check_confusion_matrix", "mod_confusion_matrix_set", "mod_confusion_matrix",
                   "mod_hash", "mod_eq", "mod_is_leaf", "leaf_get_modality", "leaf_set_modality", "leaf_replace_all_modalities",
                   "leaf_modalities_hash", "branch_set_modality", "branch_del_modality", "branch_replace_all_modalities",
                   "branch_clear_modalities", "branch_modalities_hash"}


def translator_tie(ctx: "Ctx") -> None:
    """Regenerate Gallina definitions from the current Python source and have Coq prove them equal to the model for all
    arguments.  A broken obligation (untranslatable source, or the equality no longer provable) is reported as a
    violation ending in no-failing-input-found unless the correspondence of this run already produced a failing input."""
    import importlib
    from . import translate
    modules = []
    for f in sorted((VERIF / "harness").glob("translate*.py")):
        try:
            mod_ = importlib.import_module(f"harness.{f.stem}")
            if isinstance(getattr(mod_, "PIECES", None), dict):
                modules.append(mod_)
        except Exception:  # noqa: BLE001  (a module under construction; its pieces then count as missing = not discharged)
            pass
    pieces = TRANSLATOR_TIE.get(ctx.pid, [])
    if not pieces:
        return
    ctx.work.mkdir(parents=True, exist_ok=True)

    def one(piece):
        mod = next((m for m in modules if piece in m.PIECES), None)
        if mod is None:
            return {"piece": piece, "source": "?", "lemma": "?", "ok": False, "advisory": piece in ADVISORY_PIECES,
                    "reason": "no translator module provides this piece"}
        _, lemma, where = mod.PIECES[piece]
        rec = {"piece": piece, "source": where, "lemma": lemma if isinstance(lemma, str) else list(lemma), "ok": False,
               "advisory": piece in ADVISORY_PIECES}
        try:
            text = mod.generate(piece)
        except translate.Untranslatable as e:  # every translate module raises this class
            rec["reason"] = f"source not in the translatable fragment: {e}"
        except (SyntaxError, OSError) as e:
            rec["reason"] = f"source unreadable: {e!r}"
        except Exception as e:  # noqa: BLE001  (fail-closed: a source shape the translator trips over is not translatable)
            rec["reason"] = f"source not in the translatable fragment (translator error {type(e).__name__}: {str(e)[:200]})"
        else:
            f = ctx.work / f"Gen_{piece}.v"
            f.write_text(text)
            r = subprocess.run(["timeout", "300", "coqc", "-Q", str(COQ / "theories"), "LymphModel", "-R", str(ctx.work), "", str(f)],
                               cwd=ctx.work, capture_output=True, text=True)
            out = r.stdout + r.stderr
            asked = text.count("Print Assumptions")
            rec["ok"] = (r.returncode == 0 and asked >= 1 and out.count("Closed under the global context") == asked
                         and "Axioms:" not in out)
            if not rec["ok"]:
                rec["reason"] = "Coq rejects the equality with the model: " + out[-600:]
                rec["generated"] = text[-1500:]
        return rec
    from concurrent.futures import ThreadPoolExecutor
    with ThreadPoolExecutor(max_workers=8) as ex:
        results = list(ex.map(one, pieces))
    ctx.extra["translator_tie"] = results
    for r in results:
        if not r["ok"] and r["advisory"]:
            print(f"NOTE property={ctx.pid} advisory translator obligation {r['piece']} ({r['source']}) no longer checks: "
                  f"{str(r.get('reason', ''))[:160]}; the correspondence of this run decides")
    broken = [r for r in results if not r["ok"] and not r["advisory"]]
    if broken and not any(v["found_input"] for v in ctx.violations):
        ctx.violation("the model is no longer provably equal to the translated source (" + ", ".join(r["source"] for r in broken) + ")",
                      {"broken": [f"generated lemma {r['lemma']} ({r['source']}): {r.get('reason', '')}" for r in broken],
                       "note": "the correspondence of this run found no input on which the property fails"},
                      {"part": "T", "broken": [r["piece"] for r in broken]}, found_input=False)


# --------------------------------------------------------------------------
# generic correspondence driver (part B) and shrinking (part C)
# --------------------------------------------------------------------------
def correspondence(ctx: Ctx, cases: list, impl_fn, coq_expr_fn, compare_fn, imports: str,
                   tag: str = "cases", shard: int = 100, prelude: str = ""):
    """Run impl and model on all cases; return list of (case, mismatch dict)."""
    observed = []
    for c in cases:
        try:
            observed.append(("ok", impl_fn(c)))
        except Exception as e:  # noqa: BLE001
            from .impl import err_enum
            observed.append(("err", err_enum(e), repr(e)[:300]))
    exprs = [coq_expr_fn(c) for c in cases]
    vals = run_coq_cases(ctx.work / tag, exprs, imports, shard=shard, prelude=prelude)
    bad = []
    for c, o, v in zip(cases, observed, vals):
        try:
            mm = compare_fn(c, o, v)
        except HarnessError:
            raise
        except Exception as e:  # noqa: BLE001
            # what the implementation returned has a shape the comparison does not expect: that is a difference
            # between implementation and model on this case, not a reason to crash the check
            mm = {"observable": "comparison of implementation and model outputs",
                  "actual": f"unexpected shape/type of the implementation's output ({type(e).__name__}: {str(e)[:200]})",
                  "expected": "outputs comparable with the model's"}
        if mm is not None:
            bad.append((c, mm))
    return bad


def shrink(ctx: Ctx, case, candidates_fn, still_fails_batch, max_rounds: int = 8, budget_s: float = 40.0,
           max_cands: int = 16):
    """Greedy batch shrinking: candidates_fn(case) -> list of smaller cases;
    still_fails_batch(list of cases) -> list of bool.  Bounded by a time budget."""
    cur = case
    t0 = time.time()
    for _ in range(max_rounds):
        if time.time() - t0 > budget_s:
            break
        cands = candidates_fn(cur)[:max_cands]
        if not cands:
            break
        try:
            flags = still_fails_batch(cands)
        except Exception:  # noqa: BLE001
            break
        nxt = None
        for cand, f in zip(cands, flags):
            if f:
                nxt = cand
                break
        if nxt is None:
            break
        cur = nxt
    return cur


def run_standard(ctx: Ctx, cases: list, impl_fn, coq_expr_fn, compare_fn, imports: str, candidates_fn=None,
                 sig_fn=None, call_fn=None, broken: str = "", tag: str = "main", shard: int = 60, max_reports: int = 3,
                 prelude: str = "") -> list:
    """Correspondence on all cases; shrink and report up to max_reports mismatches. Returns the mismatches."""
    def failing(cs, tg):
        bad_ = correspondence(ctx, cs, impl_fn, coq_expr_fn, compare_fn, imports, tag=tg, shard=shard, prelude=prelude)
        keys = {json.dumps(jsonable(c), sort_keys=True) for c, _ in bad_}
        return [json.dumps(jsonable(c), sort_keys=True) in keys for c in cs], bad_

    _, bad = failing(cases, tag)
    seen_sigs = []
    attempts = 0
    for case, mm in bad:
        if len(seen_sigs) >= max_reports or attempts >= max_reports:
            break
        attempts += 1
        small = case
        if candidates_fn is not None:
            small = shrink(ctx, case, candidates_fn, lambda cs: failing(cs, tag + "-shrink")[0])
            _, bad2 = failing([small], tag + "-final")
            if bad2:
                mm = bad2[0][1]
            else:
                small = case
        sig = sig_fn(small, mm) if sig_fn else {"observable": str(mm.get("observable"))}
        if sig in seen_sigs and len(seen_sigs) > 0:
            continue
        seen_sigs.append(sig)
        ctx.violation(f"{mm.get('observable')}: implementation differs from the model/spec",
                      {"case": small, "mismatch": mm, "call": call_fn(small, mm) if call_fn else str(mm.get("observable")),
                       "broken": broken or "correspondence model vs /repo"}, sig)
    return bad


def first_diff(actual, expected, tol: float = TOL):
    """Index and values of the first entry where a float array differs from exact expectations (nested lists)."""
    import numpy as np
    a = np.asarray(actual, dtype=float)
    e = np.asarray(jsonable_floats(expected), dtype=float)
    if a.shape != e.shape:
        if a.size == 0 and e.size == 0:
            return None
        return {"shape_actual": list(a.shape), "shape_expected": list(e.shape)}
    if a.size == 0:
        return None
    d = np.abs(a - e)
    d = np.where(np.isnan(a), np.inf, d)
    bad = d > tol * np.maximum(1.0, np.abs(e))
    if not bad.any():
        return None
    idx = tuple(int(i) for i in np.argwhere(bad)[0])
    return {"index": list(idx), "actual": float(a[idx]), "expected": float(e[idx])}


def jsonable_floats(x):
    if isinstance(x, Fraction):
        return float(x)
    if isinstance(x, (list, tuple)):
        return [jsonable_floats(v) for v in x]
    return x


def unres(v):
    """Model values of type res A print as `inr x` / `inl MKey`: -> ('ok', x) / ('err', tag)"""
    if isinstance(v, tuple) and v and v[0] == "inr":
        return ("ok", v[1])
    if isinstance(v, tuple) and v and v[0] == "inl":
        t = v[1]
        name = t[1] if isinstance(t, tuple) else str(t)
        return ("err", {"MKey": "KeyError", "MValue": "ValueError", "MNotImpl": "NotImplementedError",
                        "MAttr": "AttributeError"}.get(name, name))
    raise ValueError(f"not a res value: {v!r}")
