"""Source-to-Gallina translator, eleventh part: the named-parameter machinery of `lymph.types.Model` (C17).

On every run the CURRENT Python source is parsed with `ast`, translated statement by statement into Gallina
(`gen_<function>`), the generated term is checked by CONVERSION (`reflexivity`) against `NumpyNamed.np_<function>` (a
hand-written statement-by-statement reading of the same Python function) and `NumpyNamed.v` proves once and for all that
`np_<function>` behaves like the hand-written model of `coq/theories/Named.v`.

  piece                       source                                       model (Named.v)
  nm_named_params             types.Model.named_params (getter)            named_params
  nm_set_named                types.Model.named_params (setter)            set_named (new state and the names warned about)
                              + does_contain_in_order
  nm_del_named                types.Model.named_params (deleter)           del_named
  nm_does_contain_in_order    types.does_contain_in_order                  does_contain_in_order
  nm_create_alias_map         types.create_alias_map (+ dcio)              create_alias_map
  nm_get_named_params         types.Model.get_named_params                 get_named_params
                              (+ getter, create_alias_map, dcio)
  nm_set_named_params         types.Model.set_named_params (+ getter)      set_named_params
  nm_get_num_dims             types.Model.get_num_dims (+ the above)       get_num_dims
  nm_safe_set_params          utils.safe_set_params (+ set_named_params)   safe_set_params

Fail-closed: every statement / expression form that is not listed in `NM` raises `Untranslatable`.  A Python local `x`
becomes the Gallina binder `x_` (head and tail of a sequence that passed a non-emptiness guard: `x_0`, `x_tl`); fresh
binders are `x1, x2, ...`; re-assignment is shadowing.

What the translator itself ASSUMES (trusted reading; the conventions are those of the headers of Params.v and Named.v)
 * NAMES ARE PATHS: a Python parameter name is the list of its "_"-separated components, so `name.split("_")` is the
   name itself, `name.count("_")` is `path_count name` = `length name - 1` (no Python string splits into the empty list;
   the lemmas need the declared names to be non-empty paths), `a == b` on names is `path_eqb`, on components `str_eqb`.
   `name.isidentifier()` is an ABSTRACT predicate `isidentifier : path -> bool` (a parameter of the generated term).
 * dicts are insertion-ordered association lists with unique (path) keys: `{}` is `[]`, `d[k] = v` is `kw_set k v d`,
   `d.get(k)` is `kw_get k d` (an `option`; `x is None` on it is a `match` that narrows x), `d[k]` READ is `py_getitem k d`
   which raises KeyError when the key is absent, `d.keys()` is `map fst d`, `d.items()` the list itself, `len(d)` its
   length, `dict(zip(a, b, strict=False))` is `dict_of (combine a b)`, `d.update(src)` is `kw_update src d` (only on a
   dict made by `dict(...)` in the same function), `list(x)` of a list is the list.
   `d[k].append(p)` where every value ever stored in the local dict d is a fresh `[]` literal (checked) is
   `d[k] = d[k] + [p]` (the stored list has no other reference); KeyError when k is absent.
 * sets are only compared and subtracted: `set(a).issuperset(b)` is `py_issuperset a b` (= forallb (memp . a) b) and
   `set(a) - set(b)` is `py_set_diff a b`; `a or b` on lists is `py_or_list a b` (a unless it is empty);
   `[x for x in l if T]` is `filter` (`py_filter` when T can raise: the first exception ends the comprehension).
 * exceptions are values of `Named.res` (`nerr + A`): `raise ValueError(...)` is `inl ValueError`, `raise
   ExtraParamsError(...)` is `inl ExtraParamsError` (the arguments of the exception are evaluated -- they may raise
   themselves -- and then dropped), a missing key is `inl KeyError`, `del` of a missing attribute `inl AttributeError`.
 * THE OBJECT is the record `Named.nstate` (the parameter store and the attribute `_named_params`), threaded through the
   statements of a method as `self_`; a method is a function `nstate -> ... -> nstate * res R` (the object as Python
   leaves it, and the exception or the value).  `getattr(self, "_named_params", d)` evaluates d first and is
   `py_getattr_named self_ d`; `self._named_params = x` is `py_setattr_named`, `del self._named_params` is
   `py_delattr_named` (AttributeError when it is not set).
   `self.get_params(as_dict=True)` and `self.get_params(as_dict=True, as_flat=True)` are calls of the ABSTRACT method
   `get_params_ : nstate -> nstate * res (list (path * Qc))` (the flat dict name -> number; `as_flat` defaults to True in
   `types.Model.get_params` and in every `get_params` of lymph/models/*.py, which the translator checks), and
   `self.set_params(**d)` is `set_params_ self_ [] d` for the ABSTRACT `set_params_ : nstate -> args -> kwargs ->
   nstate * res args`.  The lemmas instantiate them with `model_get_params` / `model_set_params` (Params.get_params /
   Params.set_params on the parameter store; `_named_params` untouched; KeyError / ValueError).
   Properties are calls: `self.named_params` is `gen_named_params get_params_ self_`, `self.get_named_params()` is
   `gen_get_named_params get_params_ self_`, translated from the same source in the same file; keyword arguments are
   evaluated in the order in which they are written.
 * the setter of `named_params`: the argument is a sequence of names or an iterable of names, so the block
   `if not isinstance(new_names, Sequence): try: new_names = list(new_names) except TypeError as te: raise ValueError(..)
   from te` (recognised literally) leaves `new_names` the list of its elements and is dropped;
   `warnings.warn(message=<f-string mentioning exactly one name X>, category=InvalidParamNameWarning)` APPENDS X to the log
   `warned_` (initially []), which a setter returns in place of None.  No other `warnings.warn` is accepted.
 * loops: `for x in l` / `for k, v in d.items()` iterate over the value l / d has when the loop starts (the body must
   not rebind or mutate it and must not mention `self`); variables defined before the loop and assigned in the body are
   carried (`fold_left`, or `py_for` when the body can raise: the first exception ends the loop); variables first
   assigned in the body may not be used after the loop.
 * `if not s: return E` on a sequence s is `match s with [] => E | s_0 :: s_tl => ...` and only afterwards `s[0]` (= s_0)
   and `s[1:]` (= s_tl) are accepted.  `does_contain_in_order` is a `Fixpoint` that is structural in its first argument:
   the translator checks that every recursive call passes `sequence[1:]` there (Coq checks the guard again).
 * utils.safe_set_params: `params` is None, a dict name -> value, or a sequence of values (`Named.given`): `params is
   None` and `isinstance(params, dict)` are the case distinction on it; `model.set_named_params(**params)` /
   `(*params)` are `gen_set_named_params ... model_ [] params` / `... model_ params []`.
 * `as_dict` is True.
 * checked on every run (not assumed): `ExtraParamsError` is a direct subclass of `Exception` (so it stays distinct from the
   ValueError that `likelihood` turns into -inf), no module of lymph other than types.py mentions the attribute
   `_named_params`, no class of lymph/models/*.py overrides named_params / get_named_params / set_named_params /
   get_num_dims, `types.Model` has no class attributes or attribute hooks, and does_contain_in_order / create_alias_map /
   safe_set_params are defined exactly once.

Every piece whose lemma has hypotheses on the abstract methods also proves the instance `gen_<f>_model` for
`model_get_params` / `model_set_params` (the hypotheses hold by `reflexivity`).
"""
from __future__ import annotations

import ast
import re

from .translate import Untranslatable, _func, _src, _strip_doc
from .translate2 import _attr_chain
from .translate5 import _assigned, _is_none, _params, _reads, g


# ----------------------------------------------------------------------------------------------------------------------
# types of Python values (with unification for the element types of containers that start empty)
# ----------------------------------------------------------------------------------------------------------------------
class TVar:
    def __init__(self):
        self.ref = None


STR, BOOL, NAT, QC, VAL, UNIT, GIVEN, SET = "string", "bool", "nat", "Qc", "val", "unit", "given", "set"


def L(t):
    return ("list", t)


def D(t):
    return ("dict", t)


def O(t):
    return ("opt", t)


PATH = L(STR)
PATHS = L(PATH)
FLAT = D(QC)
ARGS = L(VAL)
KWARGS = D(VAL)


def shallow(t):
    while isinstance(t, TVar) and t.ref is not None:
        t = t.ref
    return t


def resolve(t):
    t = shallow(t)
    if isinstance(t, tuple):
        return (t[0],) + tuple(resolve(x) for x in t[1:])
    return t


def show(t) -> str:
    t = resolve(t)
    if isinstance(t, TVar):
        return "?"
    if t == PATH:
        return "path"
    if isinstance(t, tuple):
        a = show(t[1])
        a = f"({a})" if " " in a else a
        return {"list": f"list {a}", "opt": f"option {a}", "dict": f"list (path * {show(t[1])})"}[t[0]]
    return t


def known(t) -> bool:
    t = resolve(t)
    if isinstance(t, TVar):
        return False
    return all(known(x) for x in t[1:]) if isinstance(t, tuple) else True


def unify(a, b, what=""):
    a, b = shallow(a), shallow(b)
    if a is b:
        return
    if isinstance(a, TVar):
        a.ref = b
        return
    if isinstance(b, TVar):
        b.ref = a
        return
    if isinstance(a, tuple) and isinstance(b, tuple) and a[0] == b[0] and len(a) == len(b):
        for x, y in zip(a[1:], b[1:]):
            unify(x, y, what)
        return
    if a != b:
        raise Untranslatable(f"type mismatch ({what}): {show(a)} vs {show(b)}")


def is_ctor(t, c) -> bool:
    t = shallow(t)
    return isinstance(t, tuple) and t[0] == c


def _free_reads(stmts) -> set:
    """names read in the statements outside a `for` / comprehension of these statements that binds them"""
    out = set()

    def targets(t):
        return {n.id for n in ast.walk(t) if isinstance(n, ast.Name)}

    def walk(n, bound):
        if isinstance(n, ast.For):
            walk(n.iter, bound)
            for x in n.body:
                walk(x, bound | targets(n.target))
            for x in n.orelse:
                walk(x, bound)
        elif isinstance(n, (ast.ListComp, ast.SetComp, ast.GeneratorExp, ast.DictComp)):
            b = bound
            for gen in n.generators:
                walk(gen.iter, b)
                b = b | targets(gen.target)
                for i in gen.ifs:
                    walk(i, b)
            for x in ([n.key, n.value] if isinstance(n, ast.DictComp) else [n.elt]):
                walk(x, b)
        elif isinstance(n, ast.Name):
            if isinstance(n.ctx, ast.Load) and n.id not in bound:
                out.add(n.id)
        else:
            for c in ast.iter_child_nodes(n):
                walk(c, bound)
    for s in stmts:
        walk(s, frozenset())
    return out


class NeedRes(Exception):
    """a pure block turned out to raise: translate it again in `res` mode"""


ERRORS = {"ValueError": "ValueError", "ExtraParamsError": "ExtraParamsError"}


class Counter:
    def __init__(self):
        self.n = 0

    def fresh(self) -> str:
        self.n += 1
        return f"x{self.n}"


class NM:
    """modes   st   : a method; terms are `(STATE_, inl e)` / `(STATE_, inr v)`
               res  : no object; terms are `inl e` / `inr v`
               pure : no object, no exception
       statements  return [E] | raise ValueError(...) [from X] | raise ExtraParamsError(...) | NAME = E | D[K] = E
                   | D[K].append(E) | D.update(E) | self._named_params = E | del self._named_params
                   | self.set_params(**D) | MODEL.set_named_params(**P) / (*P) | warnings.warn(...) (see module docstring)
                   | if not SEQ: return E (guard) | if T: BLOCK-ending-in-return/raise
                   | if T: BLOCK [else: BLOCK] falling through (assignments only / one call in each branch)
                   | for X in L: BODY | for K, V in D.items(): BODY | the `isinstance(X, Sequence)` block (dropped)
                   | if P is None: return / if isinstance(P, dict) on a `given`
       expressions names, True / False, {}, [], X.split("_"), X.count("_"), X.isidentifier(), A >= B, A == B, not E,
                   A or B, X is None or E, D.get(K), D[K], D.keys(), list(E), len(E), set(A).issuperset(B), set(A) - set(B),
                   dict(zip(A, B, strict=False)), [X for X in L if T], S[0], S[1:], `A if as_dict else B`,
                   getattr(self, "_named_params", E), self.get_params(...), self.named_params, self.get_named_params(),
                   create_alias_map(...), does_contain_in_order(...)"""

    def __init__(self, env: dict, mode: str, ret_ty, state: str | None = None, const: dict | None = None,
                 counter: Counter | None = None, funcs: set | None = None, fn_stmts=None):
        self.env = dict(env)                      # python name -> type
        self.mode = mode
        self.ret_ty = ret_ty
        self.state = state                        # python name of the threaded object (st mode)
        self.const = dict(const or {})            # python name -> Gallina boolean
        self.c = counter or Counter()
        self.funcs = funcs or set()               # translated functions / properties that may be called
        self.nonempty = {}                        # python name -> (head binder, tail binder)
        self.given = {}                           # python name of a `given` -> None | "none" | "list" | "dict"
        self.fresh_dicts = set()                  # local dicts made by dict(...): may be updated in place
        self.fn_stmts = fn_stmts or []            # the whole function body (for the aliasing check of D[K].append)
        self.warn_log = False                     # the function keeps the log `warned_`
        self.self_call = None                     # (name, params): the function being defined (recursion)

    # ---- the monad ---------------------------------------------------------------------------------------------------
    @property
    def st(self) -> str:
        return g(self.state)

    def ok(self, t: str) -> str:
        if self.mode == "st":
            return f"({self.st}, inr {t})"
        return f"inr {t}" if self.mode == "res" else t

    def err(self, e: str) -> str:
        if self.mode == "st":
            return f"({self.st}, inl {e})"
        if self.mode == "res":
            return f"inl {e}"
        raise NeedRes

    def bind(self, term: str, term_mode: str, pat: str, cont) -> str:
        """cont is called AFTER the mode check so that a pure block fails early"""
        if term_mode == "st":
            if self.mode != "st":
                raise Untranslatable("a method of the object is called where the object is not threaded (loop body)")
            s = self.st
            return f"match {term} with\n  | ({s}, inl e) => ({s}, inl e)\n  | ({s}, inr {pat}) =>\n  {cont()}\n  end"
        if self.mode == "pure":
            raise NeedRes
        return f"match {term} with\n  | inl e => {self.err('e')}\n  | inr {pat} =>\n  {cont()}\n  end"

    def sub(self, mode: str, env: dict | None = None) -> "NM":
        """a translator for a nested block in another mode (the object is only threaded in `st` mode)"""
        m = NM(self.env if env is None else env, mode, self.ret_ty if mode == self.mode else None,
               self.state if mode == "st" else None, self.const, self.c, self.funcs, self.fn_stmts)
        m.nonempty, m.given, m.warn_log, m.self_call = dict(self.nonempty), dict(self.given), self.warn_log, self.self_call
        return m

    # ---- expressions -------------------------------------------------------------------------------------------------
    def const_bool(self, e):
        if isinstance(e, ast.Name) and e.id in self.const:
            return self.const[e.id]
        return None

    def call_args(self, call: ast.Call, names: list) -> list:
        """argument expressions in the order in which Python evaluates them, with the parameter each one binds"""
        out = [(names[k], a) for k, a in enumerate(call.args)]
        if len(call.args) > len(names) or any(isinstance(a, ast.Starred) for a in call.args):
            raise Untranslatable("positional arguments")
        for k in call.keywords:
            if k.arg not in names or k.arg in [n for n, _ in out]:
                raise Untranslatable(f"keyword argument {k.arg}")
            out.append((k.arg, k.value))
        if sorted(n for n, _ in out) != sorted(names):
            raise Untranslatable(f"arguments {[n for n, _ in out]} for parameters {names}")
        return out

    def ev_list(self, exprs: list, k):
        """evaluate the expressions from left to right; k(list of (text, type))"""
        def go(i, acc):
            if i == len(exprs):
                return k(acc)
            return self.ev(exprs[i], lambda t, ty: go(i + 1, acc + [(t, ty)]))
        return go(0, [])

    def ev(self, e, k) -> str:
        """evaluate e (effects and exceptions included) and continue with k(text of the value, type)"""
        c = self.const_bool(e)
        if c is not None:
            return k(c, BOOL)
        if isinstance(e, ast.Constant) and isinstance(e.value, bool):
            return k("true" if e.value else "false", BOOL)
        if isinstance(e, ast.Name):
            if e.id in self.given:
                raise Untranslatable(f"{e.id} (None, a dict or a sequence) is used as a value")
            if e.id in self.env:
                return k(g(e.id), self.env[e.id])
            raise Untranslatable(f"unknown name {e.id}")
        if isinstance(e, ast.Dict) and not e.keys:
            return k("[]", D(TVar()))
        if isinstance(e, ast.List) and not e.elts:
            return k("[]", L(TVar()))
        if isinstance(e, ast.IfExp):
            c = self.const_bool(e.test)
            if c == "true":
                return self.ev(e.body, k)
            raise Untranslatable("conditional expression whose test is not the constant as_dict")
        if isinstance(e, ast.UnaryOp) and isinstance(e.op, ast.Not):
            def neg(t, ty):
                if resolve(ty) != BOOL:
                    raise Untranslatable(f"`not` of a {show(ty)} (emptiness tests are only accepted as guards `if not S: return`)")
                return k(f"(negb {t})", BOOL)
            return self.ev(e.operand, neg)
        if isinstance(e, ast.BoolOp) and isinstance(e.op, ast.Or) and len(e.values) == 2:
            return self.ev_or(e, k)
        if isinstance(e, ast.Compare) and len(e.ops) == 1 and len(e.comparators) == 1:
            return self.ev_compare(e, k)
        if isinstance(e, ast.BinOp) and isinstance(e.op, ast.Sub):
            def diff(vs):
                (a, ta), (b, tb) = vs
                if resolve(ta) != SET or resolve(tb) != SET:
                    raise Untranslatable("`-` is only accepted between sets")
                return k(f"(py_set_diff {a} {b})", SET)
            return self.ev_list([e.left, e.right], diff)
        if isinstance(e, ast.Subscript):
            return self.ev_subscript(e, k)
        if isinstance(e, ast.ListComp):
            return self.ev_listcomp(e, k)
        if isinstance(e, ast.Attribute):
            ch = _attr_chain(e)
            if self.mode == "st" and ch == [self.state, "named_params"] and "named_params" in self.funcs:
                x = self.c.fresh()
                return self.bind(f"gen_named_params get_params_ {self.st}", "st", x, lambda: k(x, PATHS))
            raise Untranslatable(f"attribute {ast.unparse(e)}")
        if isinstance(e, ast.Call):
            return self.ev_call(e, k)
        raise Untranslatable(f"expression {ast.dump(e)[:200]}")

    def ev_or(self, e, k):
        a, b = e.values
        # X is None or E   (X an option; E is evaluated with X narrowed)
        if (isinstance(a, ast.Compare) and len(a.ops) == 1 and isinstance(a.ops[0], ast.Is) and isinstance(a.left, ast.Name)
                and _is_none(a.comparators[0]) and is_ctor(self.env.get(a.left.id), "opt")):
            x = a.left.id
            inner = self.sub("pure", {**self.env, x: shallow(self.env[x])[1]})
            try:
                t = inner.ev(b, lambda t, ty: (unify(ty, BOOL, "or"), t)[1])
            except NeedRes:
                raise Untranslatable("the second operand of `X is None or ...` can raise") from None
            return k(f"(match {g(x)} with None => true | Some {g(x)} => {t} end)", BOOL)

        def both(vs):
            (ta, tya), (tb, tyb) = vs
            if is_ctor(tya, "list"):
                unify(tya, tyb, "or")
                return k(f"(py_or_list {ta} {tb})", tya)
            raise Untranslatable(f"`or` of a {show(tya)}")
        # both operands are pure values here (lists): no short-circuit to model
        for x in (a, b):
            if not isinstance(x, ast.Name):
                raise Untranslatable("`or` of something else than two variables")
        return self.ev_list([a, b], both)

    def ev_compare(self, e, k):
        op = e.ops[0]

        def cmp(vs):
            (a, ta), (b, tb) = vs
            if isinstance(op, ast.GtE):
                unify(ta, NAT, ">=")
                unify(tb, NAT, ">=")
                return k(f"(Nat.leb {b} {a})", BOOL)
            if isinstance(op, ast.Eq):
                unify(ta, tb, "==")
                t = resolve(ta)
                if t == STR:
                    return k(f"(str_eqb {a} {b})", BOOL)
                if t == PATH:
                    return k(f"(path_eqb {a} {b})", BOOL)
                raise Untranslatable(f"== on {show(t)}")
            raise Untranslatable(f"comparison {type(op).__name__}")
        return self.ev_list([e.left, e.comparators[0]], cmp)

    def ev_subscript(self, e, k):
        v, sl = e.value, e.slice
        if isinstance(v, ast.Name) and v.id in self.nonempty:
            hd, tl = self.nonempty[v.id]
            ty = self.env[v.id]
            if isinstance(sl, ast.Constant) and sl.value == 0 and not isinstance(sl.value, bool):
                return k(hd, shallow(ty)[1])
            if (isinstance(sl, ast.Slice) and sl.upper is None and sl.step is None and isinstance(sl.lower, ast.Constant)
                    and sl.lower.value == 1 and not isinstance(sl.lower.value, bool)):
                return k(tl, ty)
            raise Untranslatable(f"subscript of the sequence {v.id}")
        if isinstance(v, ast.Name) and is_ctor(self.env.get(v.id), "dict") and not isinstance(sl, ast.Slice):
            def rd(vs):
                (d, td), (key, tk) = vs
                unify(tk, PATH, "dict key")
                x = self.c.fresh()
                return self.bind(f"py_getitem {key} {d}", "res", x, lambda: k(x, shallow(td)[1]))
            return self.ev_list([v, sl], rd)
        raise Untranslatable(f"subscript {ast.unparse(e)}")

    def ev_listcomp(self, e, k):
        ok = (len(e.generators) == 1 and not e.generators[0].is_async and len(e.generators[0].ifs) == 1
              and isinstance(e.generators[0].target, ast.Name) and isinstance(e.elt, ast.Name)
              and e.elt.id == e.generators[0].target.id and isinstance(e.generators[0].iter, ast.Name))
        if not ok:
            raise Untranslatable("list comprehension is not `[X for X in L if T]`")
        x, it = e.elt.id, e.generators[0].iter
        if x in self.env:
            raise Untranslatable(f"the comprehension variable {x} shadows a variable")

        def comp(l, tl):
            if not is_ctor(tl, "list"):
                raise Untranslatable(f"comprehension over a {show(tl)}")
            env = {**self.env, x: shallow(tl)[1]}

            def test(mode):
                m = self.sub(mode, env)
                return m.ev(e.generators[0].ifs[0], lambda t, ty: (unify(ty, BOOL, "filter"), m.ok(t))[1])
            try:
                return k(f"(filter (fun {g(x)} => {test('pure')}) {l})", tl)
            except NeedRes:
                y = self.c.fresh()
                body = test("res")
                return self.bind(f"py_filter (fun {g(x)} =>\n  {body}) {l}", "res", y, lambda: k(y, tl))
        return self.ev(it, comp)

    def ev_call(self, e, k):
        f = e.func
        # --- builtins -------------------------------------------------------------------------------------------------
        if isinstance(f, ast.Name) and f.id in ("list", "len", "set") and len(e.args) == 1 and not e.keywords:
            def one(t, ty):
                if f.id == "len":
                    if not (is_ctor(ty, "list") or is_ctor(ty, "dict")):
                        raise Untranslatable(f"len of a {show(ty)}")
                    return k(f"(length {t})", NAT)
                if not is_ctor(ty, "list"):
                    raise Untranslatable(f"{f.id}() of a {show(ty)}")
                if f.id == "set":
                    unify(ty, PATHS, "set of names")
                    return k(t, SET)
                return k(t, ty)
            return self.ev(e.args[0], one)
        if isinstance(f, ast.Name) and f.id == "dict" and len(e.args) == 1 and not e.keywords:
            z = e.args[0]
            ok = (isinstance(z, ast.Call) and isinstance(z.func, ast.Name) and z.func.id == "zip" and len(z.args) == 2
                  and len(z.keywords) == 1 and z.keywords[0].arg == "strict" and isinstance(z.keywords[0].value, ast.Constant)
                  and z.keywords[0].value.value is False)
            if not ok:
                raise Untranslatable("dict(...) of something else than zip(A, B, strict=False)")

            def mk(vs):
                (a, ta), (b, tb) = vs
                unify(ta, PATHS, "zip keys")
                if not is_ctor(tb, "list"):
                    raise Untranslatable(f"zip with a {show(tb)}")
                return k(f"(dict_of (combine {a} {b}))", D(shallow(tb)[1]))
            return self.ev_list(list(z.args), mk)
        if (isinstance(f, ast.Name) and f.id == "getattr" and len(e.args) == 3 and not e.keywords and self.mode == "st"
                and isinstance(e.args[0], ast.Name) and e.args[0].id == self.state
                and isinstance(e.args[1], ast.Constant) and e.args[1].value == "_named_params"):
            def ga(t, ty):
                unify(ty, PATHS, "default of getattr")
                return k(f"(py_getattr_named {self.st} {t})", PATHS)
            return self.ev(e.args[2], ga)
        # --- translated module functions ------------------------------------------------------------------------------
        if isinstance(f, ast.Name) and f.id == "does_contain_in_order" and "does_contain_in_order" in self.funcs:
            args = self.call_args(e, ["sequence", "items"])

            def dc(vs):
                got = {n: v for (n, _), v in zip(args, vs)}
                for n in ("sequence", "items"):
                    unify(got[n][1], PATH, f"does_contain_in_order({n})")
                if self.self_call == "does_contain_in_order":
                    a = dict(args)["sequence"]
                    if not (isinstance(a, ast.Subscript) and isinstance(a.value, ast.Name) and a.value.id == "sequence"
                            and isinstance(a.slice, ast.Slice)):
                        raise Untranslatable("recursive call whose first argument is not sequence[1:]")
                return k(f"(gen_does_contain_in_order {got['sequence'][0]} {got['items'][0]})", BOOL)
            return self.ev_list([a for _, a in args], dc)
        if isinstance(f, ast.Name) and f.id == "create_alias_map" and "create_alias_map" in self.funcs:
            args = self.call_args(e, ["all_params", "named_params"])

            def cam(vs):
                got = {n: v for (n, _), v in zip(args, vs)}
                for n in ("all_params", "named_params"):
                    unify(got[n][1], PATHS, f"create_alias_map({n})")
                x = self.c.fresh()
                return self.bind(f"gen_create_alias_map {got['all_params'][0]} {got['named_params'][0]}", "res", x,
                                 lambda: k(x, D(PATHS)))
            return self.ev_list([a for _, a in args], cam)
        # --- methods of values ----------------------------------------------------------------------------------------
        if isinstance(f, ast.Attribute):
            ch = _attr_chain(f)
            if self.mode == "st" and ch == [self.state, "get_params"]:
                kw = {x.arg: x.value for x in e.keywords}
                ok = (not e.args and set(kw) in ({"as_dict"}, {"as_dict", "as_flat"})
                      and all(isinstance(v, ast.Constant) and v.value is True for v in kw.values()))
                if not ok:
                    raise Untranslatable("get_params is not called as get_params(as_dict=True[, as_flat=True])")
                x = self.c.fresh()
                return self.bind(f"get_params_ {self.st}", "st", x, lambda: k(x, FLAT))
            if self.mode == "st" and ch == [self.state, "get_named_params"] and "get_named_params" in self.funcs:
                if e.args or e.keywords:
                    raise Untranslatable("get_named_params with arguments")
                x = self.c.fresh()
                return self.bind(f"gen_get_named_params get_params_ {self.st}", "st", x, lambda: k(x, FLAT))
            meth = f.attr
            if meth in ("split", "count") and len(e.args) == 1 and not e.keywords and isinstance(e.args[0], ast.Constant) \
                    and e.args[0].value == "_":
                def nm(t, ty):
                    unify(ty, PATH, f".{meth}")
                    return k(t, PATH) if meth == "split" else k(f"(path_count {t})", NAT)
                return self.ev(f.value, nm)
            if meth == "isidentifier" and not e.args and not e.keywords:
                def isid(t, ty):
                    unify(ty, PATH, ".isidentifier")
                    return k(f"(isidentifier {t})", BOOL)
                return self.ev(f.value, isid)
            if meth == "keys" and not e.args and not e.keywords:
                def keys(t, ty):
                    if not is_ctor(ty, "dict"):
                        raise Untranslatable(f".keys() of a {show(ty)}")
                    return k(f"(map fst {t})", PATHS)
                return self.ev(f.value, keys)
            if meth == "get" and len(e.args) == 1 and not e.keywords and isinstance(f.value, ast.Name):
                def get(vs):
                    (d, td), (key, tk) = vs
                    if not is_ctor(td, "dict"):
                        raise Untranslatable(f".get on a {show(td)}")
                    unify(tk, PATH, "dict key")
                    return k(f"(kw_get {key} {d})", O(shallow(td)[1]))
                return self.ev_list([f.value, e.args[0]], get)
            if (meth == "issuperset" and len(e.args) == 1 and not e.keywords):
                def sup(vs):
                    (a, ta), (b, tb) = vs
                    if resolve(ta) != SET:
                        raise Untranslatable("issuperset on something else than set(...)")
                    unify(tb, PATHS, "issuperset argument")
                    return k(f"(py_issuperset {a} {b})", BOOL)
                return self.ev_list([f.value, e.args[0]], sup)
        raise Untranslatable(f"call {ast.unparse(e)[:160]}")

    # ---- statements --------------------------------------------------------------------------------------------------
    def warn_name(self, s):
        """warnings.warn(message=<f-string with one name>, category=InvalidParamNameWarning) -> the python name"""
        if not (isinstance(s, ast.Expr) and isinstance(s.value, ast.Call) and _attr_chain(s.value.func) == ["warnings", "warn"]):
            return None
        kw = {x.arg: x.value for x in s.value.keywords}
        if s.value.args or set(kw) != {"message", "category"} or not (isinstance(kw["category"], ast.Name)
                                                                       and kw["category"].id == "InvalidParamNameWarning"):
            raise Untranslatable("warnings.warn is not warn(message=..., category=InvalidParamNameWarning)")
        names = [n.value.id for n in ast.walk(kw["message"]) if isinstance(n, ast.FormattedValue) and isinstance(n.value, ast.Name)]
        other = [n for n in ast.walk(kw["message"]) if isinstance(n, (ast.Call, ast.Attribute, ast.Subscript))]
        if len(names) != 1 or other or not self.warn_log:
            raise Untranslatable("the warning message does not mention exactly one name / no warning log in this function")
        unify(self.env.get(names[0], TVar()), PATH, "warned name")
        return names[0]

    def raise_term(self, s, handler_var, k_err):
        """evaluate the arguments of the exception (they can raise themselves), then raise"""
        exc = s.exc
        if not (isinstance(exc, ast.Call) and isinstance(exc.func, ast.Name) and exc.func.id in ERRORS):
            raise Untranslatable("only `raise ValueError(...)` / `raise ExtraParamsError(...)`")
        if not (s.cause is None or (isinstance(s.cause, ast.Name) and s.cause.id == handler_var)):
            raise Untranslatable("raise ... from something else than the caught exception")
        for a in list(exc.args) + [x.value for x in exc.keywords]:
            for n in ast.walk(a):
                if isinstance(n, (ast.Call, ast.Attribute, ast.Subscript, ast.Await, ast.NamedExpr)):
                    raise Untranslatable("the arguments of the exception are not plain names / string literals")
                if isinstance(n, ast.Name) and n.id not in self.env:
                    raise Untranslatable(f"the exception mentions the unknown name {n.id}")
        return k_err(ERRORS[exc.func.id])

    @staticmethod
    def is_sequence_cast(s):
        """if not isinstance(X, Sequence): try: X = list(X) except TypeError as te: raise ValueError(...) from te  -> X"""
        import copy
        if not (isinstance(s, ast.If) and isinstance(s.test, ast.UnaryOp) and isinstance(s.test.operand, ast.Call)
                and len(s.test.operand.args) == 2 and isinstance(s.test.operand.args[0], ast.Name)):
            return None
        x = s.test.operand.args[0].id
        s = copy.deepcopy(s)
        try:
            h = s.body[0].handlers[0]
            r = h.body[0]
            te = h.name
            msg = r.exc.args + [k.value for k in r.exc.keywords]
        except (AttributeError, IndexError):
            return None
        if te is None or te == x or not all(isinstance(a, ast.Constant) and isinstance(a.value, str) for a in msg):
            return None
        r.exc.args, r.exc.keywords = [], []
        want = (f"if not isinstance({x}, Sequence):\n    try:\n        {x} = list({x})\n    except TypeError as {te}:\n"
                f"        raise ValueError() from {te}\n")
        return x if ast.dump(s) == ast.dump(ast.parse(want).body[0]) else None

    def mutated(self, stmts) -> list:
        """names assigned, subscript-assigned, appended to or updated in the statements"""
        out = list(_assigned(stmts))
        for s in stmts:
            for n in ast.walk(s):
                if isinstance(n, ast.Call) and isinstance(n.func, ast.Attribute) and n.func.attr in ("append", "update", "extend",
                                                                                                       "pop", "clear", "remove", "insert",
                                                                                                       "setdefault", "sort", "reverse"):
                    x = n.func.value
                    while isinstance(x, (ast.Subscript, ast.Attribute)):
                        x = x.value
                    if isinstance(x, ast.Name) and x.id not in out:
                        out.append(x.id)
                if isinstance(n, ast.Delete):
                    for t in n.targets:
                        while isinstance(t, (ast.Subscript, ast.Attribute)):
                            t = t.value
                        if isinstance(t, ast.Name) and t.id not in out:
                            out.append(t.id)
            if self.warn_log and any(isinstance(n, ast.Call) and _attr_chain(n.func) == ["warnings", "warn"] for n in ast.walk(s)):
                if "warned" not in out:
                    out.append("warned")
        return out

    def tup(self, names) -> str:
        return g(names[0]) if len(names) == 1 else "(" + ", ".join(g(n) for n in names) + ")"

    def pat(self, names) -> str:
        return g(names[0]) if len(names) == 1 else "'(" + ", ".join(g(n) for n in names) + ")"

    def block(self, stmts, fall, handler_var=None) -> str:
        """`fall`: a thunk giving the term when the block falls through (None = not allowed)"""
        if not stmts:
            if fall is None:
                raise Untranslatable("block falls through")
            return fall()
        s, rest = stmts[0], stmts[1:]
        nxt = lambda: self.block(rest, fall, handler_var)  # noqa: E731
        # --- warnings.warn -> the log
        w = self.warn_name(s)
        if w is not None:
            return f"let warned_ := warned_ ++ [{g(w)}] in\n  {nxt()}"
        if isinstance(s, ast.Return):
            if rest:
                raise Untranslatable("code after return")
            if s.value is None:
                unify(self.ret_ty, UNIT, "bare return")
                return self.ok("tt")

            def ret(t, ty):
                unify(ty, self.ret_ty, "return")
                return self.ok(t)
            return self.ev(s.value, ret)
        if isinstance(s, ast.Raise):
            if rest:
                raise Untranslatable("code after raise")
            return self.raise_term(s, handler_var, self.err)
        if isinstance(s, ast.Delete):
            if not (self.mode == "st" and len(s.targets) == 1 and _attr_chain(s.targets[0]) == [self.state, "_named_params"]):
                raise Untranslatable("only `del self._named_params`")
            return self.bind(f"py_delattr_named {self.st}", "st", "_", nxt)
        if isinstance(s, ast.If):
            return self.if_stmt(s, rest, fall, handler_var)
        if isinstance(s, ast.For):
            return self.loop(s, rest, fall, handler_var)
        if isinstance(s, ast.Expr) and isinstance(s.value, ast.Call) and isinstance(s.value.func, ast.Attribute):
            return self.call_stmt(s.value, nxt)
        if isinstance(s, ast.Assign) and len(s.targets) == 1:
            tg, v = s.targets[0], s.value
            if isinstance(tg, ast.Name):
                if tg.id in (self.state, "warned") or tg.id in self.const or tg.id in self.given or tg.id in self.nonempty:
                    raise Untranslatable(f"assignment to {tg.id}")

                def assign(t, ty):
                    if tg.id in self.env:
                        unify(self.env[tg.id], ty, f"re-assignment of {tg.id}")
                    self.env[tg.id] = ty
                    fresh = isinstance(v, ast.Call) and isinstance(v.func, ast.Name) and v.func.id == "dict"
                    (self.fresh_dicts.add if fresh else self.fresh_dicts.discard)(tg.id)
                    return f"let {g(tg.id)} := {t} in\n  {nxt()}"
                return self.ev(v, assign)
            if isinstance(tg, ast.Subscript) and isinstance(tg.value, ast.Name) and is_ctor(self.env.get(tg.value.id), "dict") \
                    and not isinstance(tg.slice, ast.Slice):
                d = tg.value.id

                def setitem(vs):
                    (val, tv), (key, tk) = vs                # Python evaluates the value first, then the key
                    unify(tk, PATH, "dict key")
                    unify(shallow(self.env[d])[1], tv, f"{d}[...] = ...")
                    return f"let {g(d)} := kw_set {key} {val} {g(d)} in\n  {nxt()}"
                return self.ev_list([v, tg.slice], setitem)
            if self.mode == "st" and _attr_chain(tg) == [self.state, "_named_params"]:
                def setattr_(t, ty):
                    unify(ty, PATHS, "self._named_params = ...")
                    return f"let {self.st} := py_setattr_named {self.st} {t} in\n  {nxt()}"
                return self.ev(v, setattr_)
        raise Untranslatable(f"statement {type(s).__name__}: {ast.unparse(s)[:160]}")

    def call_stmt(self, call: ast.Call, nxt) -> str:
        f = call.func
        ch = _attr_chain(f)
        # D[K].append(E)
        if f.attr == "append" and isinstance(f.value, ast.Subscript) and isinstance(f.value.value, ast.Name) \
                and len(call.args) == 1 and not call.keywords:
            d = f.value.value.id
            if not is_ctor(self.env.get(d), "dict"):
                raise Untranslatable(f"{d}[...].append: {d} is not a dict")
            # aliasing: every value ever stored in d is a fresh [] literal
            for st in self.fn_stmts:
                for n in ast.walk(st):
                    if isinstance(n, ast.Assign):
                        for t in n.targets:
                            if isinstance(t, ast.Subscript) and isinstance(t.value, ast.Name) and t.value.id == d \
                                    and not (isinstance(n.value, ast.List) and not n.value.elts):
                                raise Untranslatable(f"{d}[...] is assigned something else than a fresh []: the lists may be shared")
                            if isinstance(t, ast.Name) and t.id == d and not (isinstance(n.value, ast.Dict) and not n.value.keys):
                                raise Untranslatable(f"{d} is assigned something else than a fresh {{}}")

            if not (isinstance(f.value.slice, ast.Name) and isinstance(call.args[0], ast.Name)):
                raise Untranslatable(f"{d}[K].append(P): K and P must be variables")

            def app(vs):
                (key, tk), (p, tp) = vs
                unify(tk, PATH, "dict key")
                unify(shallow(self.env[d])[1], L(tp), f"{d}[...].append")
                x = self.c.fresh()
                return self.bind(f"py_getitem {key} {g(d)}", "res", x,
                                 lambda: f"let {g(d)} := kw_set {key} ({x} ++ [{p}]) {g(d)} in\n  {nxt()}")
            return self.ev_list([f.value.slice, call.args[0]], app)
        # D.update(E)
        if f.attr == "update" and isinstance(f.value, ast.Name) and len(call.args) == 1 and not call.keywords \
                and is_ctor(self.env.get(f.value.id), "dict"):
            d = f.value.id
            if d not in self.fresh_dicts:
                raise Untranslatable(f"{d}.update(...): the dict may be shared (it is not made by dict(...) here)")

            def upd(t, ty):
                unify(self.env[d], ty, "update")
                return f"let {g(d)} := kw_update {t} {g(d)} in\n  {nxt()}"
            return self.ev(call.args[0], upd)
        # self.set_params(**D)
        if self.mode == "st" and ch == [self.state, "set_params"]:
            ok = (not call.args and len(call.keywords) == 1 and call.keywords[0].arg is None)
            if not ok:
                raise Untranslatable("set_params is not called as set_params(**D)")

            def sp(t, ty):
                unify(ty, KWARGS, "set_params(**...)")
                return self.bind(f"set_params_ {self.st} [] {t}", "st", "_", nxt)
            return self.ev(call.keywords[0].value, sp)
        # MODEL.set_named_params(**P) / (*P) with P a `given`
        if self.mode == "st" and ch == [self.state, "set_named_params"] and "set_named_params" in self.funcs:
            kws, pos = call.keywords, call.args
            if len(kws) == 1 and not pos and kws[0].arg is None and isinstance(kws[0].value, ast.Name) \
                    and self.given.get(kws[0].value.id) == "dict":
                a, kw = "[]", g(kws[0].value.id)
            elif len(pos) == 1 and not kws and isinstance(pos[0], ast.Starred) and isinstance(pos[0].value, ast.Name) \
                    and self.given.get(pos[0].value.id) == "list":
                a, kw = g(pos[0].value.id), "[]"
            else:
                raise Untranslatable("set_named_params is not called as (**P) with P a dict / (*P) with P a sequence")
            return self.bind(f"gen_set_named_params get_params_ set_params_ {self.st} {a} {kw}", "st", "_", nxt)
        raise Untranslatable(f"call statement {ast.unparse(call)[:160]}")

    def if_stmt(self, s: ast.If, rest, fall, handler_var) -> str:
        nxt = lambda: self.block(rest, fall, handler_var)  # noqa: E731
        # the isinstance(X, Sequence) block
        x = self.is_sequence_cast(s)
        if x is not None:
            if not is_ctor(self.env.get(x), "list"):
                raise Untranslatable(f"{x} is not a sequence parameter")
            return nxt()
        t = s.test
        # case distinction on a `given`
        if (isinstance(t, ast.Compare) and len(t.ops) == 1 and isinstance(t.ops[0], ast.Is) and isinstance(t.left, ast.Name)
                and _is_none(t.comparators[0]) and t.left.id in self.given):
            p = t.left.id
            if self.given[p] is not None or s.orelse or not isinstance(s.body[-1], (ast.Return, ast.Raise)):
                raise Untranslatable(f"`if {p} is None` is not the first test of {p} / does not end in return")
            arms = []
            for tag, ctor, ty in (("none", "GNone", None), ("list", f"GList {g(p)}", ARGS), ("dict", f"GDict {g(p)}", KWARGS)):
                m = self.sub(self.mode)
                m.given[p] = tag
                body = m.block(list(s.body), None, handler_var) if tag == "none" else m.block(rest, fall, handler_var)
                arms.append(f"  | {ctor} =>\n  {body}")
            return f"match {g(p)} with\n" + "\n".join(arms) + "\n  end"
        if (isinstance(t, ast.Call) and isinstance(t.func, ast.Name) and t.func.id == "isinstance" and len(t.args) == 2
                and isinstance(t.args[0], ast.Name) and t.args[0].id in self.given and isinstance(t.args[1], ast.Name)
                and t.args[1].id == "dict"):
            tag = self.given[t.args[0].id]
            if tag not in ("list", "dict"):
                raise Untranslatable("isinstance(P, dict) before `P is None` has been excluded")
            taken = s.body if tag == "dict" else s.orelse
            if any(isinstance(n, (ast.Return, ast.Raise)) for x in s.body + s.orelse for n in ast.walk(x)):
                raise Untranslatable("return / raise inside the branches of isinstance(P, dict)")
            return self.block(list(taken) + rest, fall, handler_var)
        # guard: if not SEQ: return E
        if (isinstance(t, ast.UnaryOp) and isinstance(t.op, ast.Not) and isinstance(t.operand, ast.Name)
                and is_ctor(self.env.get(t.operand.id), "list")):
            x = t.operand.id
            if s.orelse or x in self.nonempty or not isinstance(s.body[-1], ast.Return):
                raise Untranslatable(f"`if not {x}` is not a guard ending in return")
            saved = dict(self.env)
            then = self.block(list(s.body), None, handler_var)
            self.env = saved
            hd, tl = f"{x}_0", f"{x}_tl"
            self.nonempty[x] = (hd, tl)
            els = nxt()
            del self.nonempty[x]
            return f"match {g(x)} with\n  | [] => {then}\n  | {hd} :: {tl} =>\n  {els}\n  end"
        # if T: BLOCK ending in return / raise
        if not s.orelse and isinstance(s.body[-1], (ast.Return, ast.Raise)):
            def early(tt, ty):
                unify(ty, BOOL, "test")
                saved = (dict(self.env), set(self.fresh_dicts))
                then = self.block(list(s.body), None, handler_var)
                self.env, self.fresh_dicts = saved
                return f"if {tt} then\n  {then}\n  else\n  {nxt()}"
            return self.ev(t, early)
        # if T: assignments [else: assignments] falling through
        if any(isinstance(n, (ast.Return, ast.Raise, ast.Continue, ast.Break, ast.For, ast.Try)) for x in s.body + s.orelse
               for n in ast.walk(x)):
            raise Untranslatable("return / raise / continue / break / for / try inside an `if` that falls through")
        live = self.mutated(s.body + s.orelse)
        for n in live:
            if n not in self.env:
                raise Untranslatable(f"{n} is first assigned inside an `if` that falls through")
        if not live:
            raise Untranslatable("an `if` that falls through without assigning anything")

        def through(tt, ty):
            unify(ty, BOOL, "test")
            before = dict(self.env)

            def branches(mode):
                m = self.sub(mode)
                a = m.block(list(s.body), lambda: m.ok(self.tup(live)), handler_var)
                m.env = dict(before)
                b = m.block(list(s.orelse), lambda: m.ok(self.tup(live)), handler_var)
                return a, b
            saved_n = self.c.n
            try:
                a, b = branches("pure")
                return f"let {self.pat(live)} := if {tt} then\n  {a}\n  else {b} in\n  {nxt()}"
            except NeedRes:
                if self.mode == "pure":
                    raise
                self.c.n = saved_n
                a, b = branches("res")
                return self.bind(f"(if {tt} then\n  {a}\n  else {b})", "res", self.tup(live), nxt)
        return self.ev(t, through)

    def loop(self, s: ast.For, rest, fall, handler_var) -> str:
        if s.orelse:
            raise Untranslatable("for ... else")
        if any(isinstance(n, (ast.Return, ast.Break, ast.Continue, ast.Try)) for x in s.body for n in ast.walk(x)):
            raise Untranslatable("return / break / continue / try inside a loop")
        if self.state is not None and self.state in _reads(s.body):
            raise Untranslatable("the loop body mentions the object")
        it, tg = s.iter, s.target
        items = (isinstance(it, ast.Call) and isinstance(it.func, ast.Attribute) and it.func.attr == "items" and not it.args
                 and not it.keywords and isinstance(it.func.value, ast.Name))
        src = it.func.value if items else it
        # the iterated value: a variable, or `A or B` of two variables (evaluated once, before the loop)
        srcs = [n.id for n in ast.walk(src) if isinstance(n, ast.Name)]
        box = {}
        try:
            self.sub("pure").ev(src, lambda t, ty: box.update(t=t, ty=ty) or "")
        except NeedRes:
            raise Untranslatable("the iterated expression can raise") from None
        src_t, ty = box["t"], box["ty"]
        if items:
            if not (is_ctor(ty, "dict") and isinstance(tg, ast.Tuple) and len(tg.elts) == 2 and all(isinstance(x, ast.Name) for x in tg.elts)):
                raise Untranslatable("loop is not `for K, V in D.items()`")
            vars_ = [(tg.elts[0].id, PATH), (tg.elts[1].id, shallow(ty)[1])]
        else:
            if not (is_ctor(ty, "list") and isinstance(tg, ast.Name)):
                raise Untranslatable("loop is not `for X in L`")
            vars_ = [(tg.id, shallow(ty)[1])]
        names = [n for n, _ in vars_]
        mutated = self.mutated(s.body)
        if len(set(names)) != len(names) or any(n in self.env or n in mutated for n in names) or set(srcs) & set(mutated):
            raise Untranslatable("the loop variables shadow / are assigned / the iterated container is changed in the body")
        carried = [n for n in mutated if n in self.env]
        local = [n for n in mutated if n not in self.env]
        if not carried:
            raise Untranslatable("a loop without carried variables")
        if (set(names) | set(local)) & _free_reads(rest):
            raise Untranslatable("a variable of the loop body is used after the loop")
        if items:
            a, b = (show(t) if known(t) else None for _, t in vars_)
            if a is None or b is None:
                raise Untranslatable("the type of the items of the dict is not known when the loop starts")
            binder = f"'(({g(names[0])}, {g(names[1])}) : {a} * {'(' + b + ')' if ' ' in b else b})"
        else:
            binder = g(names[0])
        cpat, ctup = self.pat(carried), self.tup(carried)
        if len(carried) > 1:
            tys = [show(self.env[n]) if known(self.env[n]) else None for n in carried]
            if None in tys:
                raise Untranslatable("several carried variables of unknown type")
            cbind = f"'({ctup} : {' * '.join('(' + t + ')' if ' ' in t else t for t in tys)})"
        else:
            cbind = ctup
        env = {**self.env, **dict(vars_)}

        def body(mode):
            m = self.sub(mode, env)
            m.warn_log = self.warn_log
            m.fresh_dicts = set()
            t = m.block(list(s.body), lambda: m.ok(ctup), handler_var)
            return t
        saved_n = self.c.n
        try:
            t = body("pure")
            return f"let {cpat} := fold_left (fun {cbind} {binder} =>\n  {t}) {src_t} {ctup} in\n  {self.block(rest, fall, handler_var)}"
        except NeedRes:
            self.c.n = saved_n
            t = body("res")
            return self.bind(f"py_for (fun {binder} {cbind} =>\n  {t}) {src_t} {ctup}", "res", ctup,
                             lambda: self.block(rest, fall, handler_var))


# ----------------------------------------------------------------------------------------------------------------------
# the functions
# ----------------------------------------------------------------------------------------------------------------------
def _cls(tree, name):
    for n in tree.body:
        if isinstance(n, ast.ClassDef) and n.name == name:
            return n
    raise Untranslatable(f"class {name} not found")


def _method(cls, name, deco):
    found = [n for n in cls.body if isinstance(n, ast.FunctionDef) and n.name == name
             and [ast.unparse(d) for d in n.decorator_list] == ([] if deco is None else [deco])]
    if len(found) != 1:
        raise Untranslatable(f"{cls.name}.{name} with decorator {deco}: found {len(found)} definitions")
    return found[0]


def _once(tree, name):
    if sum(1 for n in ast.walk(tree) if isinstance(n, (ast.FunctionDef, ast.ClassDef)) and n.name == name) != 1 or any(
            isinstance(n, (ast.Assign, ast.AnnAssign, ast.Import, ast.ImportFrom)) and name in ast.unparse(n).split() for n in tree.body):
        raise Untranslatable(f"{name} is not defined exactly once")


def _types_tree():
    tree = ast.parse(_src("lymph/types.py"))
    for f in ("does_contain_in_order", "create_alias_map"):
        _once(tree, f)
        if not any(isinstance(n, ast.FunctionDef) and n.name == f for n in tree.body):
            raise Untranslatable(f"{f} is not a module-level function")
    ok = any(isinstance(n, ast.ImportFrom) and n.module == "collections.abc" and any(a.name == "Sequence" and a.asname is None for a in n.names)
             for n in tree.body) and any(isinstance(n, ast.Import) and any(a.name == "warnings" and a.asname is None for a in n.names)
                                         for n in tree.body)
    if not ok:
        raise Untranslatable("Sequence / warnings are not imported as expected")
    cls = _cls(tree, "Model")
    # the abstract methods and their defaults (module docstring)
    gp = _method(cls, "get_params", "abstractmethod")
    _params(gp, ["self", "as_dict", "as_flat"], [True, True])
    sp = _method(cls, "set_params", "abstractmethod")
    _params(sp, ["self"], vararg="args", kwarg="kwargs")
    for n in cls.body:
        if isinstance(n, (ast.Assign, ast.AnnAssign)) or (isinstance(n, ast.FunctionDef) and n.name in ("__getattr__", "__getattribute__",
                                                                                                       "__setattr__", "__delattr__")):
            raise Untranslatable("class attributes / attribute hooks in types.Model")
    exc = _cls(tree, "ExtraParamsError")
    _once(tree, "ExtraParamsError")
    if [ast.unparse(b) for b in exc.bases] != ["Exception"] or exc.keywords:
        raise Untranslatable("ExtraParamsError is not a direct subclass of Exception (it must stay distinct from ValueError)")
    import os
    from pathlib import Path
    pkg = Path(os.environ.get("LYMPH_REPO", "/repo")) / "lymph"
    for f in sorted(pkg.rglob("*.py")):
        if f.name != "types.py" and re.search(r"\b_named_params\b", f.read_text()):
            raise Untranslatable(f"{f.name} mentions the attribute _named_params")
    models = pkg / "models"
    for f in sorted(models.glob("*.py")):
        for n in ast.walk(ast.parse(f.read_text())):
            if isinstance(n, ast.FunctionDef) and n.name == "get_params":
                _params(n, ["self", "as_dict", "as_flat"], [True, True])
            if isinstance(n, ast.FunctionDef) and n.name in ("named_params", "get_named_params", "set_named_params", "get_num_dims"):
                raise Untranslatable(f"{f.name} overrides {n.name}")
    return tree, cls


GP = "(get_params_ : nstate -> nstate * res (list (path * Qc)))"
SP = "(set_params_ : nstate -> args -> kwargs -> nstate * res args)"


def _dcio_def(tree) -> str:
    fn = _func(tree, "does_contain_in_order")
    _params(fn, ["sequence", "items"])
    m = NM({"sequence": PATH, "items": PATH}, "pure", BOOL, funcs={"does_contain_in_order"})
    m.self_call = "does_contain_in_order"
    body = m.block(_strip_doc(fn.body), None)
    return ("Fixpoint gen_does_contain_in_order (sequence_ items_ : path) {struct sequence_} : bool :=\n  " + body + ".\n"
            "Lemma gen_does_contain_in_order_np : forall s i, gen_does_contain_in_order s i = np_does_contain_in_order s i.\n"
            "Proof. intros. reflexivity. Qed.\n")


def _cam_def(tree) -> str:
    fn = _func(tree, "create_alias_map")
    _params(fn, ["all_params", "named_params"])
    st = _strip_doc(fn.body)
    m = NM({"all_params": PATHS, "named_params": PATHS}, "res", D(PATHS), funcs={"does_contain_in_order"}, fn_stmts=st)
    body = m.block(st, None)
    return ("Definition gen_create_alias_map (all_params_ named_params_ : list path) : res (list (path * list path)) :=\n  "
            + body + ".\n"
            "Lemma gen_create_alias_map_np : forall a n, gen_create_alias_map a n = np_create_alias_map a n.\n"
            "Proof. intros. reflexivity. Qed.\n")


def _getter_def(cls) -> str:
    fn = _method(cls, "named_params", "property")
    _params(fn, ["self"])
    m = NM({}, "st", PATHS, state="self")
    body = m.block(_strip_doc(fn.body), None)
    return (f"Definition gen_named_params {GP} (self_ : nstate) : nstate * res (list path) :=\n  " + body + ".\n"
            "Lemma gen_named_params_np : forall gp s, gen_named_params gp s = np_named_params gp s.\n"
            "Proof. intros. reflexivity. Qed.\n")


def _setter_def(cls) -> str:
    fn = _method(cls, "named_params", "named_params.setter")
    _params(fn, ["self", "new_names"])
    st = _strip_doc(fn.body)
    if "warned" in {n.id for x in st for n in ast.walk(x) if isinstance(n, ast.Name)}:
        raise Untranslatable("a variable called `warned`")
    m = NM({"new_names": PATHS, "warned": PATHS}, "st", PATHS, state="self", funcs={"does_contain_in_order"}, fn_stmts=st)
    m.warn_log = True
    body = m.block(st, lambda: m.ok("warned_"))
    return (f"Definition gen_set_named (isidentifier : path -> bool) {GP} (self_ : nstate) (new_names_ : list path)\n"
            "  : nstate * res (list path) :=\n  let warned_ := [] in\n  " + body + ".\n"
            "Lemma gen_set_named_np : forall isid gp s names, gen_set_named isid gp s names = np_set_named isid gp s names.\n"
            "Proof. intros. reflexivity. Qed.\n")


def _deleter_def(cls) -> str:
    fn = _method(cls, "named_params", "named_params.deleter")
    _params(fn, ["self"])
    m = NM({}, "st", UNIT, state="self")
    body = m.block(_strip_doc(fn.body), lambda: m.ok("tt"))
    return ("Definition gen_del_named (self_ : nstate) : nstate * res unit :=\n  " + body + ".\n"
            "Lemma gen_del_named_np : forall s, gen_del_named s = np_del_named s.\nProof. intros. reflexivity. Qed.\n")


def _get_named_def(cls) -> str:
    fn = _method(cls, "get_named_params", None)
    _params(fn, ["self", "as_dict"], [True])
    st = _strip_doc(fn.body)
    m = NM({}, "st", FLAT, state="self", const={"as_dict": "true"}, funcs={"named_params", "create_alias_map"}, fn_stmts=st)
    body = m.block(st, None)
    return (f"Definition gen_get_named_params {GP} (self_ : nstate) : nstate * res (list (path * Qc)) :=\n  " + body + ".\n"
            "Lemma gen_get_named_params_np : forall gp s, gen_get_named_params gp s = np_get_named_params gp s.\n"
            "Proof. intros. reflexivity. Qed.\n")


def _set_named_params_def(cls) -> str:
    fn = _method(cls, "set_named_params", None)
    _params(fn, ["self"], vararg="args", kwarg="kwargs")
    st = _strip_doc(fn.body)
    m = NM({"args": ARGS, "kwargs": KWARGS}, "st", UNIT, state="self", funcs={"named_params"}, fn_stmts=st)
    body = m.block(st, lambda: m.ok("tt"))
    return (f"Definition gen_set_named_params {GP} {SP}\n    (self_ : nstate) (args_ : args) (kwargs_ : kwargs) : nstate * res unit :=\n  "
            + body + ".\n"
            "Lemma gen_set_named_params_np : forall gp sp s a kw, gen_set_named_params gp sp s a kw = np_set_named_params gp sp s a kw.\n"
            "Proof. intros. reflexivity. Qed.\n")


def _num_dims_def(cls) -> str:
    fn = _method(cls, "get_num_dims", None)
    _params(fn, ["self"])
    m = NM({}, "st", NAT, state="self", funcs={"get_named_params"})
    body = m.block(_strip_doc(fn.body), None)
    return (f"Definition gen_get_num_dims {GP} (self_ : nstate) : nstate * res nat :=\n  " + body + ".\n"
            "Lemma gen_get_num_dims_np : forall gp s, gen_get_num_dims gp s = np_get_num_dims gp s.\n"
            "Proof. intros. reflexivity. Qed.\n")


HYP_GP = "gp s = model_get_params s ->"
HYP_SP = "(forall kw', sp s [] kw' = model_set_params s [] kw') ->"


def translate_named_params() -> str:
    _, cls = _types_tree()
    return (_getter_def(cls)
            + f"Lemma gen_named_params_eq : forall gp s, {HYP_GP}\n  gen_named_params gp s = (s, named_params s).\n"
              "Proof. intros gp s H. rewrite gen_named_params_np. apply np_named_params_eq. exact H. Qed.\n"
              "Lemma gen_named_params_model : forall s, gen_named_params model_get_params s = (s, named_params s).\n"
              "Proof. intros s. apply gen_named_params_eq. reflexivity. Qed.\n")


def translate_set_named() -> str:
    tree, cls = _types_tree()
    return (_dcio_def(tree) + _setter_def(cls)
            + f"Lemma gen_set_named_eq : forall isid gp s names, {HYP_GP} forallb isid names = true ->\n"
              "  gen_set_named isid gp s names = match set_named s names with inl e => (s, inl e) | inr (s', w) => (s', inr w) end.\n"
              "Proof. intros isid gp s names H Hid. rewrite gen_set_named_np. apply np_set_named_eq; assumption. Qed.\n"
              f"Lemma gen_set_named_invalid : forall isid gp s names its, {HYP_GP} param_items (ns_model s) = Some its ->\n"
              "  forallb isid names = false -> gen_set_named isid gp s names = (s, inl ValueError).\n"
              "Proof. intros isid gp s names its H Hi Hid. rewrite gen_set_named_np. apply (np_set_named_invalid isid gp s names its); assumption. Qed.\n")


def translate_del_named() -> str:
    _, cls = _types_tree()
    return (_deleter_def(cls)
            + "Lemma gen_del_named_eq : forall s,\n"
              "  gen_del_named s = match del_named s with inl e => (s, inl e) | inr s' => (s', inr tt) end.\n"
              "Proof. intros s. rewrite gen_del_named_np. apply np_del_named_eq. Qed.\n")


def translate_dcio() -> str:
    tree, _ = _types_tree()
    return (_dcio_def(tree)
            + "Lemma gen_does_contain_in_order_eq : forall s i, gen_does_contain_in_order s i = does_contain_in_order s i.\n"
              "Proof. intros s i. rewrite gen_does_contain_in_order_np. apply np_does_contain_in_order_eq. Qed.\n")


def translate_create_alias_map() -> str:
    tree, _ = _types_tree()
    return (_dcio_def(tree) + _cam_def(tree)
            + "Lemma gen_create_alias_map_eq : forall all named, gen_create_alias_map all named = inr (create_alias_map all named).\n"
              "Proof. intros a n. rewrite gen_create_alias_map_np. apply np_create_alias_map_eq. Qed.\n")


HYP_NE = "(forall named, named_params s = inr named -> ~ In [] named) ->"


def translate_get_named_params() -> str:
    tree, cls = _types_tree()
    return (_dcio_def(tree) + _cam_def(tree) + _getter_def(cls) + _get_named_def(cls)
            + f"Lemma gen_get_named_params_eq : forall gp s, {HYP_GP} {HYP_NE}\n"
              "  gen_get_named_params gp s = (s, get_named_params s).\n"
              "Proof. intros gp s H Hne. rewrite gen_get_named_params_np. apply np_get_named_params_eq; assumption. Qed.\n"
              f"Lemma gen_get_named_params_model : forall s, {HYP_NE}\n"
              "  gen_get_named_params model_get_params s = (s, get_named_params s).\n"
              "Proof. intros s Hne. apply gen_get_named_params_eq; [reflexivity | exact Hne]. Qed.\n")


def translate_set_named_params() -> str:
    _, cls = _types_tree()
    return (_getter_def(cls) + _set_named_params_def(cls)
            + f"Lemma gen_set_named_params_eq : forall gp sp s a kw, {HYP_GP} {HYP_SP}\n"
              "  gen_set_named_params gp sp s a kw = set_named_params s a kw.\n"
              "Proof. intros gp sp s a kw H Hs. rewrite gen_set_named_params_np. apply np_set_named_params_eq; assumption. Qed.\n"
              "Lemma gen_set_named_params_model : forall s a kw,\n"
              "  gen_set_named_params model_get_params model_set_params s a kw = set_named_params s a kw.\n"
              "Proof. intros s a kw. apply gen_set_named_params_eq; reflexivity. Qed.\n")


def translate_get_num_dims() -> str:
    tree, cls = _types_tree()
    return (_dcio_def(tree) + _cam_def(tree) + _getter_def(cls) + _get_named_def(cls) + _num_dims_def(cls)
            + f"Lemma gen_get_num_dims_eq : forall gp s, {HYP_GP} {HYP_NE}\n"
              "  gen_get_num_dims gp s = (s, get_num_dims s).\n"
              "Proof. intros gp s H Hne. rewrite gen_get_num_dims_np. apply np_get_num_dims_eq; assumption. Qed.\n")


def translate_safe_set_params() -> str:
    _, cls = _types_tree()
    utils = ast.parse(_src("lymph/utils.py"))
    _once(utils, "safe_set_params")
    fn = _func(utils, "safe_set_params")
    _params(fn, ["model", "params"], [None])
    m = NM({}, "st", UNIT, state="model", funcs={"set_named_params"})
    m.given = {"params": None}
    body = m.block(_strip_doc(fn.body), lambda: m.ok("tt"))
    return (_getter_def(cls) + _set_named_params_def(cls)
            + f"Definition gen_safe_set_params {GP} {SP}\n    (model_ : nstate) (params_ : given) : nstate * res unit :=\n  "
            + body + ".\n"
            "Lemma gen_safe_set_params_np : forall gp sp s p, gen_safe_set_params gp sp s p = np_safe_set_params gp sp s p.\n"
            "Proof. intros. reflexivity. Qed.\n"
            f"Lemma gen_safe_set_params_eq : forall gp sp s p, {HYP_GP} {HYP_SP}\n"
            "  gen_safe_set_params gp sp s p = safe_set_params s p.\n"
            "Proof. intros gp sp s p H Hs. rewrite gen_safe_set_params_np. apply np_safe_set_params_eq; assumption. Qed.\n"
            "Lemma gen_safe_set_params_model : forall s p,\n"
            "  gen_safe_set_params model_get_params model_set_params s p = safe_set_params s p.\n"
            "Proof. intros s p. apply gen_safe_set_params_eq; reflexivity. Qed.\n")


HEADER = ("(* GENERATED on every run by harness/translate11.py from the Python source of lymph; do not edit *)\n"
          "From LymphModel Require Import Base States Linalg Graph Transition Observation Dist Unilateral Models Params Named NumpyNamed.\n"
          "Local Open Scope nat_scope.\nLocal Open Scope string_scope.\nLocal Open Scope list_scope.\n\n")

PIECES = {
    "nm_named_params": (translate_named_params, ["gen_named_params_eq", "gen_named_params_model"], "lymph/types.py Model.named_params (getter)"),
    "nm_set_named": (translate_set_named, ["gen_set_named_eq", "gen_set_named_invalid"],
                     "lymph/types.py Model.named_params (setter, with does_contain_in_order)"),
    "nm_del_named": (translate_del_named, "gen_del_named_eq", "lymph/types.py Model.named_params (deleter)"),
    "nm_does_contain_in_order": (translate_dcio, "gen_does_contain_in_order_eq", "lymph/types.py does_contain_in_order"),
    "nm_create_alias_map": (translate_create_alias_map, "gen_create_alias_map_eq", "lymph/types.py create_alias_map"),
    "nm_get_named_params": (translate_get_named_params, ["gen_get_named_params_eq", "gen_get_named_params_model"],
                            "lymph/types.py Model.get_named_params (with named_params, create_alias_map, does_contain_in_order)"),
    "nm_set_named_params": (translate_set_named_params, ["gen_set_named_params_eq", "gen_set_named_params_model"],
                            "lymph/types.py Model.set_named_params"),
    "nm_get_num_dims": (translate_get_num_dims, "gen_get_num_dims_eq", "lymph/types.py Model.get_num_dims"),
    "nm_safe_set_params": (translate_safe_set_params, ["gen_safe_set_params_eq", "gen_safe_set_params_model"],
                           "lymph/utils.py safe_set_params"),
}


def generate(piece: str) -> str:
    fn, lemma, _ = PIECES[piece]
    lemmas = [lemma] if isinstance(lemma, str) else list(lemma)
    return HEADER + fn() + "".join(f"Print Assumptions {x}.\n" for x in lemmas)


if __name__ == "__main__":
    import sys
    for p in (sys.argv[1:] or PIECES):
        print(generate(p))
